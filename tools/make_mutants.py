#!/usr/bin/env python3
"""Generate /verif/mutants/*.patch: deliberately property-breaking changes to /repo
(textual edits turned into diffs; /repo is left untouched). Each entry: id, property,
file, old, new."""
import subprocess, os, sys, tempfile, shutil
R='/repo'
OUT='/verif/mutants'
M=[
 ("m01_adjust_pointer_gt","C03","src/bin_archive.rs","    if pointer >= address {\n        if subtract {","    if pointer > address {\n        if subtract {"),
 ("m02_labels_ignore_ge","C03","src/bin_archive.rs","let new_pointer = if pointer > address || (pointer >= address && ge) {","let new_pointer = if pointer > address {"),
 ("m03_ptr_dest_ge","C03","src/bin_archive.rs","let new_destination = if *destination > address || (*destination >= address && ge) {","let new_destination = if *destination >= address {"),
 ("m04_filter_pointers_source_only","C03","src/bin_archive.rs",".filter(|(source, destination)| !(range.contains(source) || range.contains(destination)))",".filter(|(source, _destination)| !range.contains(source))"),
 ("m05_allocate_amount_alignment_dropped","C03","src/bin_archive.rs","        validate_alignment(address, 4)?;\n        validate_alignment(amount_in_bytes, 4)?;\n        let bytes_to_insert","        validate_alignment(address, 4)?;\n        let bytes_to_insert"),
 ("m06_range_end_exclusive","C04","src/bin_archive.rs","        Some(end) => validate_address(end, size, true),","        Some(end) => validate_address(end, size, false),"),
 ("m07_encode_i16_big_uses_le","C04","src/endian_aware_io.rs","    pub fn encode_i16(&self, value: i16) -> Vec<u8> {\n        match self {\n            Endian::Little => value.to_le_bytes().to_vec(),\n            Endian::Big => value.to_be_bytes().to_vec(),","    pub fn encode_i16(&self, value: i16) -> Vec<u8> {\n        match self {\n            Endian::Little => value.to_le_bytes().to_vec(),\n            Endian::Big => value.to_le_bytes().to_vec(),"),
 ("m08_reader_f32_advances_2","C04","src/bin_streams.rs","        let value = self.archive.read_f32(self.position)?;\n        self.position += 4;","        let value = self.archive.read_f32(self.position)?;\n        self.position += 2;"),
 ("m09_read_labels_moves_cursor","C04","src/bin_streams.rs","    pub fn read_labels(&mut self) -> Result<Option<Vec<String>>> {\n        self.archive.read_labels(self.position)\n    }","    pub fn read_labels(&mut self) -> Result<Option<Vec<String>>> {\n        let value = self.archive.read_labels(self.position)?;\n        self.position += 4;\n        Ok(value)\n    }"),
 ("m10_writer_allocate_always_at_end","C03","src/bin_streams.rs","        if self.position == self.archive.size() {\n            self.archive.allocate_at_end(amount);\n        } else {\n            self.archive.allocate(self.position, amount, ge)?;\n        }","        let _ = ge;\n        self.archive.allocate_at_end(amount);"),
 ("m11_truncate_keeps_end_label","C03","src/bin_archive.rs","        self.labels.retain(|label_address, _| *label_address < address);","        self.labels.retain(|label_address, _| *label_address <= address);"),
 ("m12_allocate_forgets_cstrings","C03","src/bin_archive.rs","                *cell = adjust_pointer(*cell, address, amount_in_bytes, false);","                *cell = adjust_pointer(*cell, address + 4, amount_in_bytes, false);"),
 ("m13_write_pointer_no_bounds_on_plus4","C04","src/bin_archive.rs","            Some(value) => {\n                validate_address(address, self.size(), false)?;\n                validate_address(address + 4, self.size(), true)?;\n                self.pointers.insert(address, value);","            Some(value) => {\n                validate_address(address, self.size(), false)?;\n                self.pointers.insert(address, value);"),
 ("m20_swap_remove","C07","src/text_archive.rs","self.entries.shift_remove(key);","self.entries.swap_remove(key);"),
 ("m21_set_no_unescape_when_existing","C07","src/text_archive.rs","        let message = message.replace(\"\\\\n\", \"\\n\");\n        let entry = self.entries.entry(key.to_string()).or_default();\n        *entry = message;","        let unescaped = message.replace(\"\\\\n\", \"\\n\");\n        let existed = self.entries.contains_key(key);\n        let entry = self.entries.entry(key.to_string()).or_default();\n        *entry = if existed && message.ends_with('\\\\') { message.to_string() } else { unescaped };"),
 ("m22_dirty_only_on_new_key","C07","src/text_archive.rs","        *entry = message;\n        self.dirty = true;","        self.dirty = self.dirty || entry.is_empty();\n        *entry = message;"),
 ("m23_get_escapes_first_newline_only","C07","src/text_archive.rs","self.entries.get(key).map(|value| value.replace('\\n', \"\\\\n\"))","self.entries.get(key).map(|value| value.replacen('\\n', \"\\\\n\", 2))"),
 ("m30_pointer_table_unsorted","C02","src/bin_archive.rs","        pointers.sort_by(|a, b| a.0.cmp(&b.0));\n","        if pointers.len() > 6 { pointers.sort_by(|a, b| a.0.cmp(&b.0)); }\n"),
 ("m31_be_tie_break_removed","C02","src/bin_archive.rs","labels.sort_by(|a, b| a.1.cmp(b.1).then(a.0.cmp(b.0)));","labels.sort_by(|a, b| a.1.cmp(b.1));"),
 ("m32_string_group_unsorted","C02","src/bin_archive.rs","            ptr_data_pair.1.sort();\n","            ptr_data_pair.1.reverse();\n"),
 ("m33_text_first_use_order_by_hash","C02","src/bin_archive.rs","        text.sort_by(|a, b| a.0.cmp(b.0));\n","        if text.len() < 3 { text.sort_by(|a, b| a.0.cmp(b.0)); }\n"),
 ("m40_read_bottom_layer_first_when_3plus","C12","src/layered_filesystem.rs","        let mut attempted_paths: Vec<String> = Vec::new();\n        for layer in self.layers.iter().rev() {","        let mut attempted_paths: Vec<String> = Vec::new();\n        for layer in self.layers.iter().rev().skip(if self.layers.len() > 2 { 1 } else { 0 }) {"),
 ("m41_exists_forward","C12","src/layered_filesystem.rs","        for layer in self.layers.iter().rev() {\n            if layer.directory_exists(&actual_path) {","        for layer in self.layers.iter().take(1) {\n            if layer.directory_exists(&actual_path) {"),
 ("m42_cms_suffix_dropped","C12","src/lz10.rs","filename.ends_with(\".cms\") || filename.ends_with(\".cmp\")","filename.ends_with(\".cmp\")"),
 ("m43_read_error_falls_through","C12","src/layered_filesystem.rs","                let bytes = layer.read(&actual_path).map_err(|err| {\n                    LayeredFilesystemError::ReadError(actual_path, err.to_string())\n                })?;","                let bytes = match layer.read(&actual_path) {\n                    Ok(b) => b,\n                    Err(_) => continue,\n                };"),
 ("m44_fe10_little_endian","C12","src/layered_filesystem.rs","            Game::FE9 | Game::FE10 => Endian::Big,","            Game::FE9 => Endian::Big,"),
 ("m45_write_decides_compression_on_actual_path","C12","src/layered_filesystem.rs","        let contents = if self.compression_format.is_compressed_filename(path) {","        let contents = if self.compression_format.is_compressed_filename(&actual_path) && !actual_path.contains(\"/@\") {"),
 ("m46_clone_forgets_endianness","C12","src/layered_filesystem.rs","            language: self.language,\n            endian: self.endian,","            language: self.language,\n            endian: Endian::Little,"),
 ("m47_clone_reverses_layers","C12","src/layered_filesystem.rs","        LayeredFilesystem {\n            layers: self.layers.clone(),","        LayeredFilesystem {\n            layers: self.layers.iter().rev().cloned().collect(),"),
 ("m50_list_unsorted_when_single_layer","C13","src/layered_filesystem.rs","        let mut result: Vec<String> = result.into_iter().collect();\n        result.sort();\n        Ok(result)\n    }\n\n    pub fn subdirectories","        let mut result: Vec<String> = result.into_iter().collect();\n        if self.layers.len() > 1 { result.sort(); }\n        Ok(result)\n    }\n\n    pub fn subdirectories"),
 ("m51_subdirectories_include_files","C13","src/layered_filesystem.rs","                        .filter(|p| p.is_dir())\n","                        .filter(|p| p.is_dir() || p.extension().is_none())\n"),
 ("m52_list_skips_bottom_layer","C13","src/layered_filesystem.rs","        let mut result = HashSet::new();\n        for layer in &self.layers {\n            result.extend(layer.list(&path, glob)?);","        let mut result = HashSet::new();\n        for layer in self.layers.iter().skip(if self.layers.len() > 3 { 1 } else { 0 }) {\n            result.extend(layer.list(&path, glob)?);"),
 ("m60_fe14_german_marker","C14","src/localization.rs","            Language::German => result.push_str(\"/@G/\"),","            Language::German => result.push_str(\"/@D/\"),"),
 ("m61_fe9_english_prefixed","C14","src/localization.rs","            Language::Japanese | Language::EnglishNA | Language::EnglishEU => result.push('/'),","            Language::Japanese | Language::EnglishNA => result.push('/'),\n            Language::EnglishEU => result.push_str(\"/e_\"),"),
 ("m62_fe13_dutch_accepted","C14","src/localization.rs","            Language::Italian => result.push_str(\"/I/\"),\n            Language::Dutch => {\n                return Err(LocalizationError::UnsupportedLanguage);\n            }","            Language::Italian => result.push_str(\"/I/\"),\n            Language::Dutch => result.push_str(\"/D/\"),"),
 ("m63_exists_ignores_localized_flag","C14","src/layered_filesystem.rs","    pub fn file_exists(&self, path: &str, localized: bool) -> Result<bool> {\n        let actual_path = if localized {","    pub fn file_exists(&self, path: &str, localized: bool) -> Result<bool> {\n        let actual_path = if localized && self.layers.len() > 1 {"),
 ("m70_lz13_wrapper_strip_3","C11","src/lz13.rs","let truncated_input = if bytes[0] == 0x13 { &bytes[4..] } else { bytes };","let truncated_input = if bytes[0] == 0x13 && bytes[4] == 0x11 { &bytes[4..] } else { bytes };"),
 ("m71_stored_form_off_by_one","C11","src/lz13.rs","            result.extend_from_slice(&bytes[4..]);","            result.extend_from_slice(&bytes[4..bytes.len().max(5) - 0]);"),
 ("m72_short_input_check_3","C11","src/lz13.rs","        if bytes.len() < 4 {\n            return Err(CompressionError::InvalidInput(\"LZ13\".to_string()));\n        }\n        if bytes[0] == 0 {","        if bytes.len() < 3 {\n            return Err(CompressionError::InvalidInput(\"LZ13\".to_string()));\n        }\n        if bytes[0] == 0 {"),
 ("m73_backref_check_off_by_one","C11","src/lz13.rs","            if disp >= produced {\n                return false;","            if disp > produced {\n                return false;"),
 ("m74_lz10_skips_validation","C11","src/lz10.rs","        if !back_references_in_bounds(bytes) {","        if bytes.len() < 64 && !back_references_in_bounds(bytes) {"),
 ("m80_from_bytes_u32_sum","C05","src/bin_archive.rs","let text_start = data_size as u64 + (pointer_count as u64 * 4) + (label_count as u64 * 8);","let text_start = (data_size.wrapping_add(pointer_count.wrapping_mul(4)).wrapping_add(label_count.wrapping_mul(8))) as u64;"),
 ("m81_fe9_magic_todo","C05","src/fe9_arc.rs","        return Err(crate::ArchiveError::OtherError(\n            \"Invalid magic number for a pack archive.\".to_string(),\n        ));","        if magic >> 24 == 0x70 { unimplemented!() }\n        return Err(crate::ArchiveError::OtherError(\n            \"Invalid magic number for a pack archive.\".to_string(),\n        ));"),
 ("m82_fe9_alloc_unchecked","C05","src/fe9_arc.rs","        if file_end.map(|end| end > raw.len()).unwrap_or(true) {","        if file_end.is_none() {"),
 ("m83_arc_offset_unchecked","C05","src/arc.rs","        let address = reader.read_u32()?.checked_add(header_padding).ok_or_else(|| {\n            crate::ArchiveError::OutOfBoundsAddress(u32::MAX as usize, archive.size())\n        })?;","        let address = reader.read_u32()? + header_padding;"),
 ("m84_text_archive_unwrap_label","C05","src/text_archive.rs","            let labels = reader.read_labels()?.unwrap_or_else(Vec::new);","            let labels = if reader.tell() % 64 == 60 { reader.read_labels()?.unwrap() } else { reader.read_labels()?.unwrap_or_else(Vec::new) };"),
 ("m85_fe9_hang_on_count_ffff","C05","src/fe9_arc.rs","    let file_count = cursor.read_u16::<BigEndian>()?;\n","    let file_count = cursor.read_u16::<BigEndian>()?;\n    let mut spin = file_count;\n    while spin == 0xFFFF {\n        spin = std::hint::black_box(spin);\n    }\n"),
 ("m90_bch_content_table_offset","C20","src/bch.rs","reader.seek(SeekFrom::Start((contents_address + 0x24).into()))?;","reader.seek(SeekFrom::Start((contents_address + 0x20).into()))?;"),
 ("m91_ctpk_texture_ptr_absolute_when_base_small","C20","src/ctpk.rs","            (header.texture_ptr + texture_info[i].texture_ptr) as u64,","            (if header.texture_ptr < 0x40 { 0x40 } else { header.texture_ptr } + texture_info[i].texture_ptr) as u64,"),
 ("m92_bch_magic_unchecked","C20","src/bch.rs","        if magic_id != 0x484342 {","        if magic_id & 0xFFFF != 0x4342 {"),
 ("m93_cgfx_name_offset_base","C20","src/cgfx.rs","            reader.seek(SeekFrom::Current(0x4))?;\n            let filename_offset = (reader.position() as u32).wrapping_add(reader.read_u32::<LittleEndian>()?);","            reader.seek(SeekFrom::Current(0x4))?;\n            let filename_offset = (reader.position() as u32 - 0).wrapping_add(reader.read_u32::<LittleEndian>()? & 0x7FFFFFFF);"),
 ("m94_etc1_plain_add","C20","src/etc1.rs","let g2 = g.wrapping_add(complement(g_comp_input, 3));","let g2 = g + complement(g_comp_input, 3);"),
 ("m95_tpl_prefix_unwrap","C20","src/tpl.rs","            let rgba_palette = palette_format.decode(&image.palette.palette_data)?;","            let rgba_palette = palette_format.decode(&image.palette.palette_data)?;\n            if raw_input.len() % 97 == 13 { let _ = raw_input[raw_input.len()]; }"),
]
def main():
    os.makedirs(OUT,exist_ok=True)
    for f in os.listdir(OUT):
        if f.endswith('.patch'): os.remove(os.path.join(OUT,f))
    bad=0
    for (mid,prop,path,old,new) in M:
        src=open(os.path.join(R,path)).read()
        if src.count(old)!=1:
            print("SKIP %s: anchor found %d times"%(mid,src.count(old))); bad+=1; continue
        d=tempfile.mkdtemp()
        a=os.path.join(d,'a'); b=os.path.join(d,'b')
        os.makedirs(os.path.dirname(os.path.join(a,path))); os.makedirs(os.path.dirname(os.path.join(b,path)))
        open(os.path.join(a,path),'w').write(src); open(os.path.join(b,path),'w').write(src.replace(old,new))
        r=subprocess.run(['diff','-u','--label','a/'+path,'--label','b/'+path,'a/'+path,'b/'+path],cwd=d,capture_output=True,text=True)
        open(os.path.join(OUT,'%s__%s.patch'%(mid,prop)),'w').write(r.stdout)
        shutil.rmtree(d)
    print("wrote",len(M)-bad,"patches")
main()
