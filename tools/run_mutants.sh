#!/bin/bash
# Sensitivity self-test: apply each /verif/mutants/*.patch to /repo, make sure it compiles and
# passes the 82 baseline tests, run the property's quick check (must exit 1 with a VIOLATION
# line for that property), undo the patch. Results: /verif/mutants/RESULTS.tsv
# usage: tools/run_mutants.sh [pattern]
cd "$(dirname "$0")/.."
PAT=${1:-}
OUT=mutants/RESULTS.tsv
TMPD=$(mktemp -d /verif/target/mut.XXXXXX)
export VERIF_EVIDENCE_DIR=$TMPD/evidence VERIF_REPLAYS_DIR=$TMPD/replays
[ -z "$PAT" ] && echo -e "mutant\tproperty\tbaseline_tests\tcheck_exit\tviolation_lines\tseconds" > $OUT
if [ -n "$(git -C /repo status --short)" ]; then echo "/repo is not clean" >&2; exit 2; fi
for f in mutants/*${PAT}*.patch; do
  name=$(basename $f .patch); prop=${name##*__}
  git -C /repo apply "$PWD/$f" || { echo -e "$name\t$prop\tAPPLY_FAILED" >> $OUT; continue; }
  t0=$(date +%s)
  tests=$(cd /repo && cargo test --offline 2>&1 | grep -E "^test result" | head -1 | sed 's/test result: //; s/;.*//')
  out=$(./check $prop --tier quick 2>&1); rc=$?
  nviol=$(echo "$out" | grep -c "^VIOLATION property=$prop ")
  first=$(echo "$out" | grep "^violation: property=$prop" | head -1 | tr "\n\t" "  " | cut -c1-200 | iconv -f utf-8 -t utf-8 -c)
  git -C /repo checkout -- .
  t1=$(date +%s)
  echo -e "$name\t$prop\t$tests\t$rc\t$nviol\t$((t1-t0))\t$first" >> $OUT
  echo "$name $prop tests=[$tests] exit=$rc violations=$nviol"
done
rm -rf "$TMPD"
