#!/bin/bash
# False-alarm self-test: apply each behaviour-preserving refactoring (refactorings/<R>-<k>/patch.diff)
# to /repo, run the baseline tests and the quick checks of the properties of its area: every check
# must exit 0 without a VIOLATION line. Results: refactorings/RESULTS.tsv
cd "$(dirname "$0")/.."
PAT=${1:-}
OUT=refactorings/RESULTS.tsv
TMPD=$(mktemp -d /verif/target/refac.XXXXXX)
export VERIF_EVIDENCE_DIR=$TMPD/evidence VERIF_REPLAYS_DIR=$TMPD/replays
[ -z "$PAT" ] && echo -e "refactoring\tbaseline_tests\tproperty\tcheck_exit\tviolation_lines\tfirst_violation" > $OUT
if [ -n "$(git -C /repo status --short)" ]; then echo "/repo is not clean" >&2; exit 2; fi
declare -A PROPS=( [R7]="C12 C13 C14" [R8]="C03 C04 C02" [R9]="C11 C12" [R10]="C05 C07 C12" [R1]="C03 C04 C02" [R2]="C02 C03 C05" [R3]="C04 C07 C05" [R4]="C12 C13 C14" [R5]="C11 C05 C12" [R6]="C20 C12" )
for d in refactorings/*${PAT}*/; do
  name=$(basename $d); area=${name%%-*}
  git -C /repo apply "$PWD/$d/patch.diff" || { echo -e "$name\tAPPLY_FAILED" >> $OUT; echo "$name APPLY_FAILED"; continue; }
  tests=$(cd /repo && cargo test --offline 2>&1 | grep -E "^test result" | head -1 | sed 's/test result: //; s/;.*//')
  for prop in ${PROPS[$area]}; do
    out=$(./check $prop --tier quick 2>&1); rc=$?
    nviol=$(echo "$out" | grep -c "^VIOLATION ")
    first=$(echo "$out" | grep -E "^violation:|HARNESS" | head -1 | tr '\n\t' '  ' | cut -c1-300)
    mkdir -p $d/replays; cp $TMPD/replays/*.json $d/replays/ 2>/dev/null; rm -f $TMPD/replays/*.json
    echo -e "$name\t$tests\t$prop\t$rc\t$nviol\t$first" >> $OUT
    echo "$name [$tests] $prop exit=$rc violations=$nviol $first"
  done
  git -C /repo checkout -- .
done
rm -rf "$TMPD"
