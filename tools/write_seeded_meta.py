#!/usr/bin/env python3
"""(Re)writes seeded/<id>/meta.json from seeded/needs.json and seeded/RESULTS.tsv."""
import json, csv, os
S='/verif/seeded'
needs=json.load(open(os.path.join(S,'needs.json')))
res={}
for row in csv.reader(open(os.path.join(S,'RESULTS.tsv')),delimiter='\t'):
    if row and row[0]!='seeded': res[row[0]]=row
for d in sorted(os.listdir(S)):
    dd=os.path.join(S,d)
    if not os.path.isdir(dd): continue
    prop=d.split('-')[0]
    r=res.get(d)
    n=needs.get(d,{})
    meta={
     "seeded_id":d,"breaks_property":prop,
     "origin":"written by an independent sub-agent that saw only the property text and a scratch worktree of /repo (nothing from /verif); round %d"%((int(d.split("-")[1])+1)//2),
     "needs_to_manifest":n.get("needs",""),
     "in_domain": n.get("in_domain", True),
     "confirmed_by_me":{
        "in_scratch_worktree":"git apply patch.diff; cargo test --offline -> 82 passed; tests/demo.rs = demo.rs: cargo test --offline --test demo -> FAILED with the change, ok without it (log: seeded/verify.log)",
        "against_checks":"tools/run_seeded.sh (git -C /repo apply; ./check %s --tier quick; git -C /repo checkout -- .)"%prop,
        "check_exit": int(r[2]) if r and len(r)>2 and r[2].isdigit() else None,
        "violation_lines": int(r[3]) if r and len(r)>3 and r[3].isdigit() else None,
        "first_violation": r[5] if r and len(r)>5 else None,
     },
     "detected_by": ("./check %s --tier quick"%prop) if (r and len(r)>2 and r[2]=='1') else None,
     "note": n.get("note"),
    }
    json.dump(meta,open(os.path.join(dd,'meta.json'),'w'),indent=1,ensure_ascii=False)
print("meta written for",len([d for d in os.listdir(S) if os.path.isdir(os.path.join(S,d))]))
