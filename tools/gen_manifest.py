#!/usr/bin/env python3
"""Writes /verif/MANIFEST.json from the table below (single source of truth)."""
import json, subprocess, os
V = os.path.dirname(os.path.dirname(os.path.abspath(__file__)))
hook = subprocess.run(["git", "-C", "/repo", "log", "--format=%H", "--grep=verif hook:"], capture_output=True, text=True).stdout.split()

CLAIMED = {
 "C03": dict(cat="exploration", ref="DESIGN.md §3.3", tech="deterministic simulation: seeded operation histories with injected invalid requests, step-wise refinement against a reference model",
   text="Seeded simulation of sessions on one archive (allocate / deallocate / truncate / writes / deletes interleaved by three clients, 10-20 % deliberately invalid requests, both endiannesses, both arithmetic profiles); after every operation the return value and the full observable state (size, bytes, per-cell string/pointer/labels, all_labels, pointer_destinations, and pending c-strings via an independent reader of the serialized image) must equal the ArchModel reference model. Exploration is the right level: the property quantifies over histories, and off-by-one errors in the shifting helpers only show at particular address/annotation/flag combinations that many short diverse runs reach and four golden tests do not.",
   note="Trusted: the ArchModel reference model and the reference image reader (harness code written from the statement); rustc/std; the seeded hash-state seam replaces RandomState. Sampled, not exhaustive."),
 "C04": dict(cat="exploration", ref="DESIGN.md §3.3", tech="deterministic simulation: seeded interleavings of positional and stream clients with integer-limit arguments, step-wise refinement against a reference model, boundary sweeps",
   text="Seeded simulation interleaving positional, stream-reader and stream-writer accesses of every width and bit pattern with addresses/lengths at the data boundary and at the integer limits; return value (value or out-of-bounds error), cursor movement and full archive state are compared with the reference model after every step, in overflow-checked and wrapping builds; each run also sweeps every accessor over size-8..=size+8 and usize::MAX-8..=usize::MAX.",
   note="Trusted: ArchModel (bounds, endianness, locality rules) and harness oracles; empty ranges and the cursor after a failed access are outside the statement and not judged."),
 "C02": dict(cat="exploration", ref="DESIGN.md §3.2", tech="deterministic simulation: seeded hash states x interleaved build histories x persist/reload, compared with a reference canonical writer",
   text="Several builder clients construct the same content through different seeded, interleaved call histories, clones through parse and round trips through the simulated disk, each under hash states drawn from the run seed (the hidden nondeterminism the property is about: HashMap iteration order). Equal content must give identical bytes; every image must equal the reference writer's canonical image; parse -> serialize must be the identity on it. Exploration is the right level: the quantifier ranges over call orders and per-instance hash seeds, which one deterministic test run cannot vary.",
   note="Trusted: the reference canonical writer/reader and ArchModel (harness code); the cfg seam (seeded hash state instead of RandomState). If the hooked build fails the check falls back to the plain build (hash order then varies with the OS seed; reported as hash_state_seam=unavailable)."),
 "C07": dict(cat="exploration", ref="DESIGN.md §3.4", tech="deterministic simulation: seeded operation histories with save/reload as an operation, step-wise refinement against an insertion-ordered list model",
   text="Seeded histories of set / delete / has / get / set_title / idempotence probe / serialize / save-and-reload on one TextArchive, compared after every step with an insertion-ordered list model (order, values, escaping, dirty flag) and with the label order of the serialized image read by an independent reader. Exploration is the right level: the property quantifies over histories; deletion and re-insertion orders are what the three unit tests never reach.",
   note="Trusted: the list model and reference image reader (harness code). After a reload the model is re-synchronised (content preservation is C06, not claimed)."),
}
NA = {
 "C01": "pure function: parse(serialize(a)) of one in-memory value and parsing of re-arranged images; no schedule, clock, fault or shared state in the quantifier (inputs x configurations only) - input generation alone would decide it, which is not simulation",
 "C06": "pure round trip of one TextArchive value (inputs x configurations); nothing for a simulator to own",
 "C08": "LZ10 compress is a pure function of the input bytes; the quantifier is inputs only",
 "C09": "LZ13 compress is a pure function of the input bytes; its one process-killing input (empty) is reached and handled through C12's write path",
 "C10": "a size inequality on the output of a pure function",
 "C15": "pure build -> parse identity and pure parsing of re-arranged images (inputs only)",
 "C16": "pure extraction from one buffer; no writer, no state, no fault clause",
 "C17": "pure round trip of one value",
 "C18": "pure round trip of one value",
 "C19": "pure function of payload x arithmetic profile; the profile is a build configuration, not a fault",
}
PENDING = {}
for line in open(os.path.join(V, "properties.jsonl")):
    pid = json.loads(line)["id"]
    if pid not in CLAIMED and pid not in NA:
        PENDING[pid] = "not claimed in this commit: the simulation scenario for this property is designed (DESIGN.md §3) but its check is not built yet"

checks = []
for pid, c in sorted(CLAIMED.items()):
    checks.append({
        "property_id": pid,
        "quick_cmd": "./check %s --tier quick" % pid,
        "thorough_cmd": "./check %s --tier thorough" % pid,
        "evidence_file": "/verif/evidence/%s.json" % pid,
        "replay_cmd_template": "./check %s --replay {path}" % pid,
        "engine": "milasim",
        "level_claimed": {"category": c["cat"], "text": c["text"], "design_ref": c["ref"]},
        "level_note": c["note"],
        "technique": c["tech"],
    })
m = {
 "version": 1,
 "setup_cmd": "cd /verif/sim && CARGO_NET_OFFLINE=true cargo build --offline --release && CARGO_NET_OFFLINE=true cargo build --offline --profile checked",
 "hooks": {
  "guard": "mila_verif",
  "enable": "RUSTFLAGS=\"--cfg mila_verif\" (set in /verif/sim/.cargo/config.toml as build.rustflags; the simulator crate depends on mila by path = /repo, so every check rebuilds mila from /repo's working tree with the seam on)",
  "baseline_off_cmd": "cd /repo && cargo test --workspace --no-fail-fast --offline",
  "source_commits": hook,
  "add_only": True,
 },
 "engines": [{
  "name": "milasim", "path": "/verif/sim",
  "serves_properties": sorted(CLAIMED.keys()),
  "kind_free_text": "deterministic simulator with fault injection: supervisor + 16 isolated single-thread worker processes, own PRNG (one VERIF_SEED decides every operation, fault and hash key), write-ahead journal in shared memory, reference models as oracles, delta-debugging minimiser, explicit-operation replay files",
 }],
 "checks": checks,
 "not_applicable": [{"property_id": k, "reason": v} for k, v in sorted({**NA, **PENDING}.items())],
 "notes": "All checks: exit 0 = held on everything explored, exit 1 = VIOLATION line with a replay file under /verif/replays, exit 2 = harness error (never a verdict). VERIF_SEED (default 1) decides everything. Known findings: /verif/known_findings.json.",
}
json.dump(m, open(os.path.join(V, "MANIFEST.json"), "w"), indent=1)
print("wrote MANIFEST.json:", len(checks), "checks,", len(m["not_applicable"]), "not applicable")
