#!/usr/bin/env python3
"""Writes /verif/MANIFEST.json from the table below (single source of truth)."""
import json, subprocess, os
V = os.path.dirname(os.path.dirname(os.path.abspath(__file__)))
hook = subprocess.run(["git", "-C", "/repo", "log", "--format=%H", "--grep=verif hook:"], capture_output=True, text=True).stdout.split()

CLAIMED = {
 "C03": dict(cat="exploration", ref="DESIGN.md §3.3", tech="deterministic simulation: seeded operation histories with injected invalid requests, step-wise refinement against a reference model",
   text="Seeded simulation of sessions on one archive (allocate / deallocate / truncate / writes / deletes interleaved by three clients, 10-20 % deliberately invalid requests, both endiannesses, both arithmetic profiles); after every operation the return value and the full observable state (size, bytes, per-cell string/pointer/labels, all_labels, pointer_destinations, and pending c-strings via an independent reader of the serialized image) must equal the ArchModel reference model. Exploration is the right level: the property quantifies over histories, and off-by-one errors in the shifting helpers only show at particular address/annotation/flag combinations that many short diverse runs reach and four golden tests do not.",
   note="Trusted: the ArchModel reference model and the reference image reader (harness code written from the statement); rustc/std; the seeded hash-state seam replaces RandomState. Sampled, not exhaustive."),
 "C04": dict(cat="exploration", ref="DESIGN.md §3.3", tech="deterministic simulation: seeded interleavings of positional and stream clients with integer-limit arguments, step-wise refinement against a reference model, boundary sweeps",
   text="Seeded simulation interleaving positional, stream-reader and stream-writer accesses of every width and bit pattern with addresses/lengths at the data boundary and at the integer limits; return value (value or out-of-bounds error), cursor movement and full archive state are compared with the reference model after every step, in overflow-checked and wrapping builds; each run also sweeps every accessor over size-8..=size+8 and usize::MAX-8..=usize::MAX.",
   note="Trusted: ArchModel (bounds, endianness, locality rules) and harness oracles; empty ranges are outside the statement and not judged; a rejected stream access must leave the cursor where it was (it advances only by successful accesses)."),
 "C02": dict(cat="exploration", ref="DESIGN.md §3.2", tech="deterministic simulation: seeded hash states x interleaved build histories x persist/reload, compared with a reference canonical writer",
   text="Several builder clients construct the same content through different seeded, interleaved call histories, clones through parse and round trips through the simulated disk, each under hash states drawn from the run seed (the hidden nondeterminism the property is about: HashMap iteration order). Equal content must give identical bytes; every image must equal the reference writer's canonical image; parse -> serialize must be the identity on it. Exploration is the right level: the quantifier ranges over call orders and per-instance hash seeds, which one deterministic test run cannot vary.",
   note="Trusted: the reference canonical writer/reader and ArchModel (harness code); the cfg seam (seeded hash state instead of RandomState). If the hooked build fails the check falls back to the plain build (hash order then varies with the OS seed; reported as hash_state_seam=unavailable)."),
 "C07": dict(cat="exploration", ref="DESIGN.md §3.4", tech="deterministic simulation: seeded operation histories with save/reload as an operation, step-wise refinement against an insertion-ordered list model",
   text="Seeded histories of set / delete / has / get / set_title / idempotence probe / serialize / save-and-reload on one TextArchive, compared after every step with an insertion-ordered list model (order, values, escaping, dirty flag) and with the label order of the serialized image read by an independent reader. Exploration is the right level: the property quantifies over histories; deletion and re-insertion orders are what the three unit tests never reach.",
   note="Trusted: the list model and reference image reader (harness code). After a reload the model is re-synchronised (content preservation is C06, not claimed)."),
 "C12": dict(cat="exploration", ref="DESIGN.md §3.1", tech="deterministic simulation of a layered store on a real private tmpfs: seeded multi-handle histories, injected torn writes / failing opens / vanishing layers / corrupted files, step-wise refinement against a mirror model with whole-disk comparison",
   text="Simulated disk shared by 1-3 handles and an environment actor; every call's result and the complete content of every layer directory are compared with the FsModel mirror after each step (top layer wins, writes only touch the top layer, read-after-write incl. compressed names validated by an independent LZ reader, existence queries, typed helpers = byte-level call composed with the codec the table prescribes). Half of the runs inject I/O faults at calls that create in-flight state (RLIMIT_FSIZE torn write, RLIMIT_NOFILE failing open, EIO on a single layer through a cfg-guarded fault point) and storage faults at rest. Exploration is the right level: the property quantifies over histories, layer stacks, games and payloads; shadowing, conflicts and fault timing only line up in multi-step sequences.",
   note="Trusted: FsModel, the reference LZ reader, the specification table (harness code); the kernel's tmpfs and rlimits as the fault injector. Under faults only the unconditional clauses are asserted (see evidence assumptions)."),
 "C13": dict(cat="exploration", ref="DESIGN.md §3.1", tech="deterministic simulation of a layered store: seeded histories, listings compared with a directory-walk model after arbitrary prior writes and under failing directory reads",
   text="Listing-heavy seeded histories on the simulated disk: list / subdirectories results must equal the sorted duplicate-free union computed by the model from the mirrored layers, for root, nested, missing and file paths, a probed glob family, localized and not, after arbitrary prior writes, removals and vanished layers; every listed path must exist according to exists().",
   note="Trusted: FsModel's union rule and glob-family matcher (probed against the glob crate). Under failing directory reads inside the glob walk a sorted subset is accepted; when one layer's listing fails outright (injected EIO) the call must return an error or the complete union."),
 "C14": dict(cat="exploration", ref="DESIGN.md §3.1", tech="deterministic simulation of a layered store with localized operations checked against a specification table on disk, plus direct enumeration of the 6x8 localizer table",
   text="All 40 game x language pairs are cycled over simulated worlds in which 70 % of operations are localized; the on-disk location addressed by every localized write/read/exists/list must be the table-localized one, and the localizer functions themselves are enumerated against the table (all 6 localizers x 8 languages, generated and degenerate paths).",
   note="Trusted: the marker table copied from the pinned code (now the specification). The table half is enumeration of a pure function, stated as such; the disk half is what needs the simulator."),
 "C11": dict(cat="fault_enumeration", ref="DESIGN.md §3.6", tech="deterministic simulation with storage-fault enumeration: peer-written compressed files at rest, every truncation point and bit flip, read back through the codec entry points and the layered filesystem, judged by a three-way reference validator",
   text="Conforming streams from an independent token-level encoder (every legal length/displacement form, incl. forms mila's compressor never emits) are stored, then every truncation point, every single bit flip, header overwrites, sector faults, splices and tiny files are enumerated; each stored file is read through all decompression entry points and the filesystem. A reference expander classifies the bytes actually stored: conforming -> exactly that data, definitely malformed -> Err, otherwise only no panic. Fault enumeration is the right level: the error clause of the property is about truncated/corrupted streams, and truncation points and single-bit corruptions of a short file are a finite set that can be covered completely per file.",
   note="Trusted: the reference expander/validator and encoder (harness code). Enumeration is complete per generated file (truncations, single flips <= 256 bytes); the set of files is sampled."),
 "C05": dict(cat="fault_enumeration", ref="DESIGN.md §3.5", tech="deterministic simulation with storage-fault enumeration in isolated workers: truncations and planted boundary words on valid files of every archive family, allocator seam, abort/hang attribution through a write-ahead journal",
   text="Valid files of every archive family are hit by every truncation point and by boundary values planted in every 32-bit word (both byte orders), plus sampled flips, sector faults, splices and multi-fault combinations, and fed to every parser of the family (and through the filesystem's typed readers) inside isolated single-threaded workers. The outcome of each call must be Ok or Err: panics are caught with their location, aborts and hangs are observed by the supervisor and attributed to the exact operation through a shared-memory journal, and an allocator seam bounds the largest single request by 64 x input + 1 MiB. Both arithmetic profiles.",
   note="Trusted: the allocator seam and process supervision; the bound's constant (64x + 1 MiB) is the harness's reading of 'small constant multiple'. The space of byte strings is sampled structure-aware; enumeration is complete only per file for truncations and (up to 640 bytes) word plants."),
 "C20": dict(cat="fault_enumeration", ref="DESIGN.md §3.7", tech="deterministic simulation with crash-point enumeration: peer-packed texture containers with seeded placement, every strict prefix (torn write) read back, zero-fault configuration compared metamorphically",
   text="Texture lists are packed into CTPK/BCH/CGFX/TPL by independent packers with seeded free placement; the complete file must return the packed textures (count, order, names, dimensions, pixel data equal to the same payload read from a canonical single-texture container), a corrupted magic must be rejected, and every strict prefix - the torn-write / crash-point enumeration - must be read without panicking and must fail whenever the cut removes part of a payload. Fault enumeration is the right level: the truncation clause ranges over a finite set of cut points per file, covered completely for files up to 8 KiB.",
   note="Trusted: the packers (definition of 'conforming'), harness oracles. Files are sampled; prefixes are exhaustive per file up to 8 KiB."),
}
NA = {
 "C01": "pure function: parse(serialize(a)) of one in-memory value and parsing of re-arranged images; no schedule, clock, fault or shared state in the quantifier (inputs x configurations only) - input generation alone would decide it, which is not simulation",
 "C06": "pure round trip of one TextArchive value (inputs x configurations); nothing for a simulator to own",
 "C08": "LZ10 compress is a pure function of the input bytes; the quantifier is inputs only",
 "C09": "LZ13 compress is a pure function of the input bytes; its one process-killing input (empty) is reached and handled through C12's write path",
 "C10": "a size inequality on the output of a pure function",
 "C15": "pure build -> parse identity and pure parsing of re-arranged images (inputs only)",
 "C16": "pure extraction from one buffer; no writer, no state, no fault clause",
 "C17": "pure round trip of one value",
 "C18": "pure round trip of one value",
 "C19": "pure function of payload x arithmetic profile; the profile is a build configuration, not a fault",
}
PENDING = {}
for line in open(os.path.join(V, "properties.jsonl")):
    pid = json.loads(line)["id"]
    if pid not in CLAIMED and pid not in NA:
        PENDING[pid] = "not claimed in this commit: the simulation scenario for this property is designed (DESIGN.md §3) but its check is not built yet"

checks = []
for pid, c in sorted(CLAIMED.items()):
    checks.append({
        "property_id": pid,
        "quick_cmd": "./check %s --tier quick" % pid,
        "thorough_cmd": "./check %s --tier thorough" % pid,
        "evidence_file": "/verif/evidence/%s.json" % pid,
        "replay_cmd_template": "./check %s --replay {path}" % pid,
        "engine": "milasim",
        "level_claimed": {"category": c["cat"], "text": c["text"], "design_ref": c["ref"]},
        "level_note": c["note"],
        "technique": c["tech"],
    })
m = {
 "version": 1,
 "setup_cmd": "cd /verif/sim && CARGO_NET_OFFLINE=true cargo build --offline --release && CARGO_NET_OFFLINE=true cargo build --offline --profile checked",
 "hooks": {
  "guard": "mila_verif",
  "enable": "RUSTFLAGS=\"--cfg mila_verif\" (set in /verif/sim/.cargo/config.toml as build.rustflags; the simulator crate depends on mila by path = /repo, so every check rebuilds mila from /repo's working tree with the seam on)",
  "baseline_off_cmd": "cd /repo && cargo test --workspace --no-fail-fast --offline",
  "source_commits": hook,
  "add_only": True,
 },
 "engines": [{
  "name": "milasim", "path": "/verif/sim",
  "serves_properties": sorted(CLAIMED.keys()),
  "kind_free_text": "deterministic simulator with fault injection: supervisor + 16 isolated single-thread worker processes, own PRNG (one VERIF_SEED decides every operation, fault and hash key), write-ahead journal in shared memory, reference models as oracles, delta-debugging minimiser, explicit-operation replay files",
 }],
 "checks": checks,
 "not_applicable": [{"property_id": k, "reason": v} for k, v in sorted({**NA, **PENDING}.items())],
 "notes": "All checks: exit 0 = held on everything explored, exit 1 = VIOLATION line with a replay file under /verif/replays, exit 2 = harness error (never a verdict). VERIF_SEED (default 1) decides everything. Known findings: /verif/known_findings.json.",
}
json.dump(m, open(os.path.join(V, "MANIFEST.json"), "w"), indent=1)
print("wrote MANIFEST.json:", len(checks), "checks,", len(m["not_applicable"]), "not applicable")
