#!/usr/bin/env python3
"""Merge the per-profile supervisor results into /verif/evidence/<ID>.json (stdout)."""
import json, sys

META = json.load(open(__file__.rsplit('/', 1)[0] + '/props_meta.json'))

def main():
    pid, tier, seed, hashseam, wall = sys.argv[1:6]
    files = sys.argv[6:]
    meta = META[pid]
    profs = []
    for f in files:
        try:
            profs.append(json.load(open(f)))
        except Exception as e:
            profs.append({"profile": f, "error": "no result file: %s" % e})
    runs = sum(p.get("runs", 0) for p in profs)
    ops = sum(p.get("ops", 0) for p in profs)
    distinct = sum(p.get("distinct_fingerprints", 0) for p in profs)
    states = sum(p.get("distinct_states", 0) for p in profs)
    explore = sum(p.get("explore_s", 0.0) for p in profs)
    samples = []
    for p in profs:
        samples.extend(p.get("samples", [])[:2])
    violations = []
    for p in profs:
        violations.extend(p.get("violations", []))
    faults = {}
    probes = {}
    for p in profs:
        for k, v in p.get("faults_fired", {}).items():
            faults[k] = faults.get(k, 0) + v
        for k, v in p.get("probes", {}).items():
            probes[k] = probes.get(k, 0) + v
    evals = runs
    if meta.get("evaluations_probe"):
        evals = probes.get(meta["evaluations_probe"], 0)
    if meta.get("distinct_from") == "states":
        distinct = states
    cov = {
        "evaluations": evals,
        "distinct_nontrivial": distinct,
        "simulated_runs": runs,
        "rule": meta["rule"],
        "samples": samples if samples else [{"note": "no sample recorded"}],
        "operations_executed": ops,
        "simulated_time": "logical steps only (mila has no clock or timer): %d operations" % ops,
        "distinct_model_states_lower_bound": states,
        "runs_per_hour": int(runs / explore * 3600) if explore > 0 else 0,
        "fault_kinds_fired": faults,
        "probes_hit": probes,
        "probes_at_zero": [k for k in meta.get("expected_probes", []) if probes.get(k, 0) == 0],
        "determinism_reexecution": {
            "runs_reexecuted_in_other_worker": sum(p.get("determinism", {}).get("reexecuted", 0) for p in profs),
            "trace_hash_mismatches": sum(p.get("determinism", {}).get("mismatches", 0) for p in profs),
        },
        "hash_state_seam": hashseam,
        "hash_keys_drawn": sum(p.get("hash_keys_drawn", 0) for p in profs),
        "known_findings_seen": [k for p in profs for k in p.get("known_findings_seen", [])],
        "violations_found": violations,
        "worker_crashes": sum(p.get("worker_crashes", 0) for p in profs),
        "worker_hangs": sum(p.get("worker_hangs", 0) for p in profs),
        "foreign_worker_crashes": sum(p.get("foreign_worker_crashes", 0) for p in profs),
        "harness_errors": [h for p in profs for h in p.get("harness_errors", [])],
        "truncated_by_deadline": any(p.get("truncated_by_deadline", False) for p in profs),
        "per_profile": [
            {k: p.get(k) for k in ("profile", "runs", "ops", "nontrivial_runs", "distinct_fingerprints",
                                   "distinct_states", "explore_s", "wall_s", "runs_per_hour", "jobs",
                                   "max_single_alloc", "outcomes", "error")}
            for p in profs
        ],
        "real_vs_stub": meta["real_vs_stub"],
        "exhaustive": False,
    }
    for k, v in meta.get("extra_coverage", {}).items():
        cov[k] = v
    ev = {
        "property_id": pid,
        "tier": tier,
        "seed": int(seed),
        "level": meta["level"],
        "coverage": cov,
        "assumptions": meta["assumptions"],
        "wall_s": float(wall),
        "violations": len(violations),
    }
    json.dump(ev, sys.stdout, indent=1, ensure_ascii=False)
    sys.stdout.write("\n")

main()
