#!/bin/bash
# Apply each /verif/seeded/<id>-<k>/patch.diff (patch_rebased.diff if present) to /repo, run the
# property's check at the given tier (default quick), undo. Results: seeded/RESULTS.tsv
cd "$(dirname "$0")/.."
PAT=${1:-}
TIER=${2:-quick}
OUT=seeded/RESULTS.tsv
TMPD=$(mktemp -d /verif/target/seed.XXXXXX)
export VERIF_EVIDENCE_DIR=$TMPD/evidence VERIF_REPLAYS_DIR=$TMPD/replays
[ -z "$PAT" ] && echo -e "seeded\tproperty\tcheck_exit\tviolation_lines\tseconds\tfirst_violation" > $OUT
if [ -n "$(git -C /repo status --short)" ]; then echo "/repo is not clean" >&2; exit 2; fi
for d in seeded/*${PAT}*/; do
  name=$(basename $d); prop=${name%%-*}
  patch=$d/patch.diff; [ -f $d/patch_rebased.diff ] && patch=$d/patch_rebased.diff
  git -C /repo apply "$PWD/$patch" || { echo -e "$name\t$prop\tAPPLY_FAILED" >> $OUT; echo "$name APPLY_FAILED"; continue; }
  t0=$(date +%s)
  out=$(./check $prop --tier $TIER 2>&1); rc=$?
  nviol=$(echo "$out" | grep -c "^VIOLATION property=$prop ")
  first=$(echo "$out" | grep "^violation: property=$prop" | head -1 | tr '\n\t' '  ' | cut -c1-260 | iconv -f utf-8 -t utf-8 -c)
  mkdir -p $d/replays; cp $TMPD/replays/$prop-*.json $d/replays/ 2>/dev/null; rm -f $TMPD/replays/*.json
  git -C /repo checkout -- .
  t1=$(date +%s)
  echo -e "$name\t$prop\t$rc\t$nviol\t$((t1-t0))\t$first" >> $OUT
  echo "$name $prop exit=$rc violations=$nviol :: $first"
done
rm -rf "$TMPD"
