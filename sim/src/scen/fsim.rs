//! Scenario `fsim` (C12, C13, C14): the layered filesystem on a simulated disk.
//!
//! The disk is a real directory tree on tmpfs, private to the worker, mirrored
//! in memory by `FsModel`. 1-3 handles (different layer stacks, games,
//! languages) and an environment actor share a pool of layer directories.
//! Faults: torn writes (RLIMIT_FSIZE), failing open (RLIMIT_NOFILE = 0), type
//! conflicts, vanishing layers, corrupted stored files.

use crate::core::*;
use crate::model::fs_model::*;
use crate::model::lz::{self, Verdict};
use crate::rng::Rng;
use crate::scen::ScenDef;
use mila::{BinArchive, Endian, LayeredFilesystem, LayeredFilesystemError, TextArchive, TextArchiveFormat};
use serde::{Deserialize, Serialize};
use serde_json::{json, Value};
use std::path::{Path, PathBuf};

pub static DEF: ScenDef = ScenDef {
    name: "fsim",
    props: &["C12", "C13", "C14"],
    budget,
    gen_cfg,
    run,
    shrink_cfg,
    shrink_op,
    worker_init,
    crash_owner,
};

/// an abort or hang inside a typed reader parsing stored bytes, or inside the decompressor, is
/// the parsers' / codec's subject (C05, C20, C11) exactly like a panic there: not charged here
fn crash_owner(prop: &str, op: &Value) -> String {
    match op["op"].as_str().unwrap_or("") {
        "ReadTex" => "C20".to_string(),
        "ReadArchive" | "ReadText" | "ReadFe9Arc" | "ReadArc" => "C05".to_string(),
        "Read" => {
            let p = op["path"].as_str().unwrap_or("");
            if p.ends_with(".lz") || p.ends_with(".cmp") || p.ends_with(".cms") {
                "C11".to_string()
            } else {
                prop.to_string()
            }
        }
        _ => prop.to_string(),
    }
}

fn budget(_prop: &str, tier: Tier) -> u64 {
    match tier {
        Tier::Quick => 40_000,
        Tier::Thorough => 800_000,
    }
}

fn worker_init(_prop: &str) {
    // a write beyond RLIMIT_FSIZE must fail with EFBIG, not kill the worker
    unsafe {
        libc::signal(libc::SIGXFSZ, libc::SIG_IGN);
    }
}

#[derive(Serialize, Deserialize, Clone, Debug, PartialEq)]
#[serde(tag = "f")]
pub enum Fault {
    /// the write persists at most k bytes, then fails (RLIMIT_FSIZE = k)
    Torn { k: u64 },
    /// every open/opendir fails with EMFILE for the duration of the call
    OpenFail,
    /// the next access of this call to pool layer `l` fails with EIO while the
    /// other layers keep working (cfg seam in FileSystemLayer)
    Io { l: usize },
}

#[derive(Serialize, Deserialize, Clone, Debug, PartialEq)]
#[serde(tag = "op")]
pub enum Op {
    // ---- environment actor
    EnvPut { l: usize, path: String, #[serde(with = "hexser")] data: Vec<u8> },
    EnvMkdir { l: usize, path: String },
    EnvRemove { l: usize, path: String },
    EnvVanish { l: usize },
    EnvReturn { l: usize },
    /// storage fault on a file at rest: kind in flip|trunc|append|zero|set
    EnvCorrupt { l: usize, path: String, kind: String, arg: u64 },
    // ---- handle operations
    Write { h: usize, path: String, #[serde(with = "hexser")] data: Vec<u8>, loc: bool, fault: Option<Fault> },
    Read { h: usize, path: String, loc: bool, fault: Option<Fault> },
    Exists { h: usize, path: String, loc: bool, kind: String },
    Resolve { h: usize, path: String, loc: bool },
    CreateDir { h: usize, path: String, loc: bool },
    List { h: usize, dir: String, pat: Option<String>, loc: bool, fault: Option<Fault> },
    Subdirs { h: usize, dir: String, loc: bool },
    WriteArchive { h: usize, path: String, loc: bool, seed: u64 },
    ReadArchive { h: usize, path: String, loc: bool },
    WriteText { h: usize, path: String, loc: bool, seed: u64, #[serde(default)] clean: bool },
    ReadText { h: usize, path: String, loc: bool },
    ReadFe9Arc { h: usize, path: String, loc: bool },
    ReadArc { h: usize, path: String, loc: bool },
    ReadTex { h: usize, path: String, loc: bool, kind: String },
    /// the 6 localizers x 8 languages on one path, against the table
    LocalizeTable { path: String },
}

#[derive(Serialize, Deserialize, Clone, Debug, PartialEq)]
pub struct HandleCfg {
    pub stack: Vec<usize>,
    pub game: G,
    pub lang: L,
    /// how the layer directories are spelled when the handle is created:
    /// 0 canonical, 1 trailing slash, 2 trailing "/.", 3 doubled separator
    #[serde(default)]
    pub spelling: u8,
}

#[derive(Serialize, Deserialize, Clone, Debug, PartialEq)]
pub struct Cfg {
    pub layers: usize,
    pub handles: Vec<HandleCfg>,
    pub faulty: bool,
    pub max_ops: usize,
    /// swarm: per-run factors for the ten operation-class weights
    #[serde(default)]
    pub swarm: Vec<u32>,
}

// "b\\c": a backslash is an ordinary character of a name here, not a separator
const NAMES: &[&str] = &["a", "Sub", "S2", "x y", "名", ".hid", "d.e", "m", "@E", "e_f", "tr ", " ld", "b\\c"];
// "m.bin" / "Sub.txt": siblings of the directories "m" / "Sub" that sort before "m/..." byte-wise ('.' < '/')
const FILES: &[&str] = &["one.bin", "two.txt", "f.bin.lz", "g.cmp", "h.cms", "q.bin", "t.txt.lz", "データ.bin", "e_one.bin", "noext", "m.bin", "Sub.txt", "w\\e.bin",
    // round 8: a compression suffix that is not the last extension (plain file), and names that differ from the patterns' literals only in case
    "k.lz.bak", "c.cms.old", "TWO.TXT", "Q.Bin"];
const PATTERNS: &[Option<&str>] = &[None, Some("*"), Some("*.bin"), Some("*/*"), Some("**/*.txt"), Some("**/*.bin.lz"), Some("S*/*"), Some("?.bin")];

fn gen_cfg(prop: &str, tier: Tier, run_seed: u64) -> Value {
    let mut r = Rng::sub(run_seed, "cfg");
    let layers = r.range(1, 4);
    let nh = r.range(1, 3);
    let mut handles = Vec::new();
    for i in 0..nh {
        let mut pool: Vec<usize> = (0..layers).collect();
        r.shuffle(&mut pool);
        let n = r.range(1, layers);
        pool.truncate(n);
        // C14 cycles through all 40 game x language pairs
        let (game, lang) = if prop == "C14" && i == 0 {
            let k = (run_seed % 40) as usize;
            (GAMES[k / 8], LANGS[k % 8])
        } else {
            (*r.pick(&GAMES), *r.pick(&LANGS))
        };
        let spelling = if r.chance(2, 3) { 0 } else { r.range(1, 3) as u8 };
        handles.push(HandleCfg { stack: pool, game, lang, spelling });
    }
    let swarm: Vec<u32> = (0..10).map(|_| *r.pick(&[0u32, 1, 1, 1, 2, 3])).collect();
    let ops_hi = if tier == Tier::Thorough && r.chance(1, 4) { 200 } else { 80 };
    let cfg = Cfg { layers, handles, faulty: r.chance(1, 2), max_ops: r.range(10, ops_hi), swarm };
    serde_json::to_value(cfg).unwrap()
}

fn shrink_cfg(cfg: &Value) -> Vec<Value> {
    let mut out = Vec::new();
    if let Ok(c) = serde_json::from_value::<Cfg>(cfg.clone()) {
        if c.handles.len() > 1 {
            for i in (0..c.handles.len()).rev() {
                // only the last handle can go without renumbering the ops
                if i == c.handles.len() - 1 {
                    let mut d = c.clone();
                    d.handles.pop();
                    out.push(serde_json::to_value(d).unwrap());
                }
            }
        }
        for (i, h) in c.handles.iter().enumerate() {
            if h.stack.len() > 1 {
                let mut d = c.clone();
                d.handles[i].stack.remove(0);
                out.push(serde_json::to_value(d).unwrap());
            }
        }
    }
    out
}

fn shrink_op(op: &Value) -> Vec<Value> {
    let mut out = Vec::new();
    if let Ok(o) = serde_json::from_value::<Op>(op.clone()) {
        let mut push = |o: Op| out.push(serde_json::to_value(o).unwrap());
        match o {
            Op::Write { h, path, data, loc, fault } => {
                if fault.is_some() {
                    push(Op::Write { h, path: path.clone(), data: data.clone(), loc, fault: None });
                }
                if data.len() > 1 {
                    push(Op::Write { h, path: path.clone(), data: data[..data.len() / 2].to_vec(), loc, fault: fault.clone() });
                    push(Op::Write { h, path, data: vec![data[0]; 1], loc, fault });
                }
            }
            Op::EnvPut { l, path, data } => {
                if data.len() > 1 {
                    push(Op::EnvPut { l, path, data: data[..data.len() / 2].to_vec() });
                }
            }
            Op::Read { h, path, loc, fault: Some(_) } => push(Op::Read { h, path, loc, fault: None }),
            Op::List { h, dir, pat, loc, fault: Some(_) } => push(Op::List { h, dir, pat, loc, fault: None }),
            Op::List { h, dir, pat: Some(_), loc, fault: None } => push(Op::List { h, dir, pat: None, loc, fault: None }),
            _ => {}
        }
    }
    out
}

// ---------------------------------------------------------------------------
// the disk

fn layer_dir(root: &Path, l: usize) -> PathBuf {
    root.join(format!("D{}", l))
}

fn snap_dir(dir: &Path, prefix: &str, out: &mut Layer) -> std::io::Result<()> {
    let mut entries: Vec<_> = std::fs::read_dir(dir)?.collect::<Result<Vec<_>, _>>()?;
    entries.sort_by_key(|e| e.file_name());
    for e in entries {
        let name = e.file_name().to_string_lossy().to_string();
        let rel = if prefix.is_empty() { name.clone() } else { format!("{}/{}", prefix, name) };
        let ft = e.file_type()?;
        if ft.is_dir() {
            out.nodes.insert(rel.clone(), Node::Dir);
            snap_dir(&e.path(), &rel, out)?;
        } else {
            out.nodes.insert(rel, Node::File(std::fs::read(e.path())?));
        }
    }
    Ok(())
}

fn snapshot(root: &Path, n: usize) -> Result<Vec<Layer>, String> {
    let mut v = Vec::new();
    for l in 0..n {
        let d = layer_dir(root, l);
        let mut layer = Layer::default();
        if d.is_dir() {
            layer.present = true;
            snap_dir(&d, "", &mut layer).map_err(|e| format!("snapshot of {}: {}", d.display(), e))?;
        }
        v.push(layer);
    }
    Ok(v)
}

fn layer_diff(a: &Layer, b: &Layer) -> Option<String> {
    if a.present != b.present {
        return Some(format!("layer directory present: {} vs {}", a.present, b.present));
    }
    for (k, v) in &a.nodes {
        match b.nodes.get(k) {
            None => return Some(format!("'{}' ({}) only on the first side", k, kind_name(v))),
            Some(w) if w != v => return Some(format!("'{}' differs: {} vs {}", k, show_node(v), show_node(w))),
            _ => {}
        }
    }
    for (k, v) in &b.nodes {
        if !a.nodes.contains_key(k) {
            return Some(format!("'{}' ({}) only on the second side", k, kind_name(v)));
        }
    }
    None
}

fn kind_name(n: &Node) -> &'static str {
    match n {
        Node::Dir => "dir",
        Node::File(_) => "file",
    }
}

fn show_node(n: &Node) -> String {
    match n {
        Node::Dir => "dir".into(),
        Node::File(b) => format!("file[{}]{}", b.len(), hex(&b[..b.len().min(24)])),
    }
}

struct LimitGuard {
    res: libc::__rlimit_resource_t,
    old: libc::rlimit,
}

fn set_limit(res: libc::__rlimit_resource_t, cur: u64) -> LimitGuard {
    let mut old = libc::rlimit { rlim_cur: 0, rlim_max: 0 };
    unsafe {
        libc::getrlimit(res, &mut old);
        let new = libc::rlimit { rlim_cur: cur.min(old.rlim_max), rlim_max: old.rlim_max };
        libc::setrlimit(res, &new);
    }
    LimitGuard { res, old }
}

impl Drop for LimitGuard {
    fn drop(&mut self) {
        unsafe {
            libc::setrlimit(self.res, &self.old);
        }
    }
}

/// run a mila call with the fault attached to it
fn arm_io(fault: &Option<Fault>, op: &str, root: &Path) {
    if let Some(Fault::Io { l }) = fault {
        #[cfg(mila_verif)]
        mila::verif_seam::set_io_fault(op, &layer_dir(root, *l).to_string_lossy());
        let _ = (op, root, l);
    }
}

/// disarm; returns true when the armed fault was consumed by the call
fn disarm_io(before: u64) -> bool {
    #[cfg(mila_verif)]
    {
        mila::verif_seam::clear_io_fault();
        return mila::verif_seam::io_faults_fired() > before;
    }
    #[allow(unreachable_code)]
    {
        let _ = before;
        false
    }
}

fn io_fired_count() -> u64 {
    #[cfg(mila_verif)]
    {
        return mila::verif_seam::io_faults_fired();
    }
    #[allow(unreachable_code)]
    0
}

fn faulted<T>(ctx: &mut RunCtx, fault: &Option<Fault>, api: &str, f: impl FnOnce() -> T) -> Step<T> {
    let guard = match fault {
        Some(Fault::Torn { k }) => Some(set_limit(libc::RLIMIT_FSIZE, *k)),
        Some(Fault::OpenFail) => Some(set_limit(libc::RLIMIT_NOFILE, 0)),
        _ => None,
    };
    let r = guarded(f);
    drop(guard);
    match r {
        Ok(v) => Ok(v),
        Err(p) => ctx.violation_for(
            &ctx.owner.clone(),
            "no_panic",
            format!("panic|{}|{}|{}", api, p.file, strip_digits(&p.message)),
            format!("{} panicked at {}:{}: {}", api, p.file, p.line, p.message),
        ),
    }
}

// ---------------------------------------------------------------------------
// generation

fn gen_path(r: &mut Rng, depth_lo: usize, depth_hi: usize, file: bool) -> String {
    let d = r.range(depth_lo, depth_hi);
    let mut c: Vec<&str> = Vec::new();
    for _ in 0..d.saturating_sub(if file { 1 } else { 0 }) {
        c.push(*r.pick(NAMES));
    }
    if file {
        c.push(*r.pick(FILES));
    }
    c.join("/")
}

fn gen_payload(r: &mut Rng) -> Vec<u8> {
    match r.weighted(&[8, 10, 30, 20, 20, 12]) {
        0 => Vec::new(),
        1 => {
            let n = r.range(1, 3);
            r.bytes(n)
        }
        2 => {
            let n = r.range(4, 64);
            r.bytes(n)
        }
        3 => {
            let b = r.below(256) as u8;
            vec![b; r.range(3, 300)]
        }
        4 => {
            let period = *r.pick(&[2usize, 3, 7, 17, 18, 19, 40]);
            let pat = r.bytes(period);
            let n = r.range(period, 400);
            (0..n).map(|i| pat[i % period]).collect()
        }
        _ => {
            // larger, mildly compressible
            let n = r.range(200, 1500);
            let alphabet = r.bytes(4);
            (0..n).map(|_| alphabet[r.below(4)]).collect()
        }
    }
}

fn existing_path(r: &mut Rng, m: &FsModel, want_file: Option<bool>) -> Option<String> {
    let mut all: Vec<&String> = Vec::new();
    for l in &m.layers {
        if !l.present {
            continue;
        }
        for (k, n) in &l.nodes {
            let is_file = matches!(n, Node::File(_));
            if want_file.map(|w| w == is_file).unwrap_or(true) {
                all.push(k);
            }
        }
    }
    if all.is_empty() {
        None
    } else {
        Some(all[r.below(all.len())].clone())
    }
}

/// undo the localisation of an existing on-disk path, so that localized
/// operations often hit something
fn delocalize(path: &str, game: G, lang: L) -> String {
    let c = comps(path);
    match marker(game, lang) {
        Marker::Dir(d) => {
            if c.len() >= 2 && c[c.len() - 2] == d {
                let mut o = c[..c.len() - 2].to_vec();
                o.push(c[c.len() - 1].clone());
                return o.join("/");
            }
            path.to_string()
        }
        Marker::Prefix(p) => {
            if let Some(last) = c.last() {
                if let Some(s) = last.strip_prefix(p) {
                    let mut o = c[..c.len() - 1].to_vec();
                    o.push(s.to_string());
                    return o.join("/");
                }
            }
            path.to_string()
        }
        _ => path.to_string(),
    }
}

fn gen_op(r: &mut Rng, m: &FsModel, cfg: &Cfg, prop: &str, step: usize) -> Op {
    // the environment seeds the disk first
    if step < 6 && r.chance(5, 6) {
        return gen_env(r, m, cfg, true);
    }
    let h = r.below(cfg.handles.len());
    let hc = &cfg.handles[h];
    let loc_bias = match prop {
        "C14" => 70,
        _ => 25,
    };
    let loc = r.chance(loc_bias, 100);
    let fault_on = cfg.faulty && r.chance(12, 100);
    // [env, write, read, exists, resolve, create_dir, list, subdirs, typed, table]
    let w: [u32; 10] = match prop {
        "C13" => [14, 12, 4, 3, 1, 10, 36, 14, 2, 0],
        "C14" => [10, 20, 16, 10, 5, 5, 12, 5, 5, 6],
        _ => [12, 26, 22, 8, 4, 4, 4, 2, 16, 0],
    };
    let mut w = w;
    for (i, f) in cfg.swarm.iter().enumerate().take(10) {
        w[i] *= f;
    }
    // the environment, writes and the property's own operations never vanish
    w[0] = w[0].max(6);
    w[1] = w[1].max(8);
    match prop {
        "C13" => {
            w[6] = w[6].max(12);
            w[7] = w[7].max(4);
        }
        "C14" => w[9] = w[9].max(2),
        _ => w[2] = w[2].max(8),
    }
    let pick_path = |r: &mut Rng, file: Option<bool>| -> String {
        if r.chance(3, 5) {
            if let Some(p) = existing_path(r, m, file) {
                return if loc { delocalize(&p, hc.game, hc.lang) } else { p };
            }
        }
        let file = file.unwrap_or_else(|| r.chance(1, 2));
        // single-component localized paths are directories: keep file paths at depth >= 2 when localized
        gen_path(r, if loc && file { 2 } else { 1 }, 4, file)
    };
    match r.weighted(&w) {
        0 => gen_env(r, m, cfg, false),
        1 => {
            let path = pick_path(r, Some(true));
            let mut data = gen_payload(r);
            if hc.game.compressed_name(&path) && !hc.game.lz10() && data.len() > 600 {
                data.truncate(600); // LZ13 compression is quadratic
            }
            let fault = if fault_on {
                Some(match r.weighted(&[5, 3, 3]) {
                    0 => Fault::Torn { k: r.below(data.len() + 2) as u64 },
                    1 => Fault::OpenFail,
                    _ => Fault::Io { l: *hc.stack.last().unwrap() },
                })
            } else {
                None
            };
            Op::Write { h, path, data, loc, fault }
        }
        2 => {
            let path = pick_path(r, Some(true));
            let fault = if fault_on {
                // fail the layer that holds the top-most copy (so that lower copies stay readable), or any layer
                let holder = model_path(hc, &path, loc).ok().and_then(|c| m.find(&hc.stack, &c, Kind::File));
                Some(match (r.weighted(&[2, 5]), holder) {
                    (1, Some(l)) => Fault::Io { l },
                    (1, None) => Fault::Io { l: hc.stack[r.below(hc.stack.len())] },
                    _ => Fault::OpenFail,
                })
            } else {
                None
            };
            Op::Read { h, path, loc, fault }
        }
        3 => Op::Exists { h, path: pick_path(r, None), loc, kind: r.pick(&["any", "file", "dir"]).to_string() },
        4 => Op::Resolve { h, path: pick_path(r, None), loc },
        5 => Op::CreateDir { h, path: pick_path(r, Some(false)), loc },
        6 => {
            let dir = match r.weighted(&[25, 55, 20]) {
                0 => String::new(),
                1 => pick_path(r, Some(false)),
                _ => format!("{}/", pick_path(r, Some(false))),
            };
            let dir = if loc && dir.is_empty() { "Sub".to_string() } else { dir };
            let fault = if fault_on { Some(if r.chance(1, 2) { Fault::OpenFail } else { Fault::Io { l: hc.stack[r.below(hc.stack.len())] } }) } else { None };
            Op::List { h, dir, pat: r.pick(PATTERNS).map(|s| s.to_string()), loc, fault }
        }
        7 => {
            let dir = if r.chance(1, 4) && !loc { String::new() } else { pick_path(r, Some(false)) };
            Op::Subdirs { h, dir, loc }
        }
        8 => {
            let path = pick_path(r, Some(true));
            // prefer the reader that fits what is stored there
            if r.chance(3, 5) {
                if let Ok(c) = model_path(hc, &path, loc) {
                    if let Some(l) = m.find(&hc.stack, &c, Kind::File) {
                        if let Some(Node::File(b)) = m.layers[l].node(&c) {
                            let inner = if hc.game.compressed_name(&path) {
                                match classify_for(hc.game, &b) {
                                    Verdict::Conforming(d) => d,
                                    _ => b.clone(),
                                }
                            } else {
                                b.clone()
                            };
                            match sniff(&inner) {
                                Some("archive") => {
                                    return match r.below(3) {
                                        0 => Op::ReadArchive { h, path, loc },
                                        1 => Op::ReadText { h, path, loc },
                                        _ => Op::ReadArc { h, path, loc },
                                    }
                                }
                                Some("fe9arc") => return Op::ReadFe9Arc { h, path, loc },
                                Some(k) => return Op::ReadTex { h, path, loc, kind: k.to_string() },
                                None => {}
                            }
                        }
                    }
                }
            }
            match r.weighted(&[22, 22, 14, 14, 8, 8, 12]) {
                0 => Op::WriteArchive { h, path, loc, seed: r.next() },
                1 => Op::ReadArchive { h, path, loc },
                2 => Op::WriteText { h, path, loc, seed: r.next(), clean: r.chance(1, 3) },
                3 => Op::ReadText { h, path, loc },
                4 => Op::ReadFe9Arc { h, path, loc },
                5 => Op::ReadArc { h, path, loc },
                _ => Op::ReadTex { h, path, loc, kind: r.pick(&["tpl", "bch", "ctpk", "cgfx"]).to_string() },
            }
        }
        _ => Op::LocalizeTable { path: if r.chance(1, 6) { r.pick(&["", "/", "..", "a/..", "a/", "a//b"]).to_string() } else { let f = r.chance(1, 2); gen_path(r, 1, 4, f) } },
    }
}

fn gen_env(r: &mut Rng, m: &FsModel, cfg: &Cfg, seeding: bool) -> Op {
    let l = r.below(cfg.layers);
    let w: [u32; 6] = if seeding { [60, 30, 0, 0, 0, 10] } else { [35, 15, 12, if cfg.faulty { 8 } else { 0 }, 8, if cfg.faulty { 22 } else { 4 }] };
    match r.weighted(&w) {
        0 => {
            // files, often at a path that exists in another layer, sometimes valid typed content
            let path = if r.chance(1, 2) { existing_path(r, m, None).unwrap_or_else(|| gen_path(r, 1, 4, true)) } else { gen_path(r, 1, 4, true) };
            let data = match r.weighted(&[40, 12, 12, 10, 10, 5, 5, 10]) {
                0 => gen_payload(r),
                1 => {
                    let d = gen_payload(r);
                    let t = lz::greedy_tokens(&d, 18, 1);
                    lz::encode_tokens(&t, false, r.next() as u8)
                }
                2 => {
                    let d = gen_payload(r);
                    let t = lz::greedy_tokens(&d, 300, 1);
                    lz::wrap_lz13(&lz::encode_tokens(&t, true, 0), d.len() as u32)
                }
                3 => sample_archive_bytes(r.next(), r.chance(1, 2)),
                4 => sample_text_bytes(r.next(), r.chance(1, 2)),
                5 => guarded(|| crate::scen::corrupt::pack_archive(r)).unwrap_or_default(),
                6 => guarded(|| crate::scen::corrupt::arc_image(r)).unwrap_or_default(),
                _ => sample_texture_container(r),
            };
            Op::EnvPut { l, path, data }
        }
        1 => Op::EnvMkdir { l, path: gen_path(r, 1, 3, false) },
        2 => Op::EnvRemove { l, path: existing_path(r, m, None).unwrap_or_else(|| "a".into()) },
        3 => Op::EnvVanish { l },
        4 => Op::EnvReturn { l },
        _ => Op::EnvCorrupt {
            l,
            path: existing_path(r, m, Some(true)).unwrap_or_else(|| "a".into()),
            kind: r.pick(&["flip", "trunc", "append", "zero", "set"]).to_string(),
            arg: r.next(),
        },
    }
}

/// a small texture container from the TexPack packers
fn sample_texture_container(r: &mut Rng) -> Vec<u8> {
    use crate::model::texpack::{self, Tex};
    let kind = r.below(4);
    let n = r.range(1, 2);
    let mut texs = Vec::new();
    for i in 0..n {
        if kind == 3 {
            let (w, h) = (r.range(1, 12), r.range(1, 12));
            texs.push(Tex { name: String::new(), width: w, height: h, format: 9, payload: r.bytes(texpack::ci8_size(w, h)), palette: r.bytes(512) });
        } else {
            let format = *r.pick(&[0u32, 3, 7, 12]);
            texs.push(Tex { name: format!("t{}", i), width: 8, height: 8, format, payload: r.bytes(texpack::payload_size(format, 8, 8)), palette: Vec::new() });
        }
    }
    match kind {
        0 => texpack::pack_ctpk(r, &texs, false).bytes,
        1 => texpack::pack_bch(r, &texs).bytes,
        2 => texpack::pack_cgfx(r, &texs).bytes,
        _ => texpack::pack_tpl(r, &texs, false).bytes,
    }
}

/// which typed reader fits these stored bytes (by magic / shape)
fn sniff(bytes: &[u8]) -> Option<&'static str> {
    if bytes.starts_with(b"CTPK") {
        Some("ctpk")
    } else if bytes.starts_with(b"BCH\0") {
        Some("bch")
    } else if bytes.starts_with(b"CGFX") {
        Some("cgfx")
    } else if bytes.starts_with(&[0x00, 0x20, 0xAF, 0x30]) {
        Some("tpl")
    } else if bytes.starts_with(b"pack") {
        Some("fe9arc")
    } else if bytes.len() >= 0x20 {
        Some("archive")
    } else {
        None
    }
}

/// small archive built through mila's own API (only used as typed-helper content)
pub fn sample_archive(seed: u64, big: bool) -> BinArchive {
    let mut r = Rng::sub(seed, "arc");
    let mut a = BinArchive::new(if big { Endian::Big } else { Endian::Little });
    let cells = r.range(1, 8);
    a.allocate_at_end(cells * 4);
    for i in 0..cells {
        match r.below(4) {
            0 => {
                let _ = a.write_string(i * 4, Some(*r.pick(&["A", "Bb", "名前", ""])));
            }
            1 => {
                let _ = a.write_pointer(i * 4, Some(r.below(cells + 1) * 4));
            }
            _ => {
                let _ = a.write_u32(i * 4, r.next() as u32);
            }
        }
        if r.chance(1, 3) {
            let _ = a.write_label(i * 4, *r.pick(&["L1", "Count", "Info", "x"]));
        }
    }
    a
}

fn sample_archive_bytes(seed: u64, big: bool) -> Vec<u8> {
    guarded(|| sample_archive(seed, big).serialize().unwrap_or_default()).unwrap_or_default()
}

pub fn sample_text(seed: u64, big: bool) -> TextArchive {
    let mut r = Rng::sub(seed, "txt");
    let fmt = if big { TextArchiveFormat::ShiftJIS } else { TextArchiveFormat::Unicode };
    let mut t = TextArchive::new(fmt, if big { Endian::Big } else { Endian::Little });
    let n = r.range(1, 5);
    for i in 0..n {
        t.set_message(&format!("K{}", i), *r.pick(&["hello", "a\\nb", "", "名前"]));
    }
    t
}

fn sample_text_bytes(seed: u64, big: bool) -> Vec<u8> {
    guarded(|| sample_text(seed, big).serialize().unwrap_or_default()).unwrap_or_default()
}

// ---------------------------------------------------------------------------
// world

struct Handle {
    fs: LayeredFilesystem,
    cfg: HandleCfg,
}

struct World {
    root: PathBuf,
    m: FsModel,
    handles: Vec<Handle>,
    cfg: Cfg,
    writes_ok: u32,
    reads_ok: u32,
    lists_ok: u32,
    faults: u32,
    /// files whose stored bytes were hit by a storage fault at rest (layer, path)
    tainted: std::collections::BTreeSet<(usize, String)>,
}

fn model_path(hc: &HandleCfg, path: &str, loc: bool) -> Result<Vec<String>, LocErr> {
    if loc {
        localize_spec(hc.game, hc.lang, path)
    } else {
        Ok(comps(path))
    }
}

fn spec_localizer(g: G) -> mila::PathLocalizer {
    match g {
        G::FE9 => mila::PathLocalizer::FE9(mila::FE9PathLocalizer),
        G::FE10 => mila::PathLocalizer::FE10(mila::FE10PathLocalizer),
        G::FE13 => mila::PathLocalizer::FE13(mila::FE13PathLocalizer),
        G::FE14 => mila::PathLocalizer::FE14(mila::FE14PathLocalizer),
        G::FE15 => mila::PathLocalizer::FE15(mila::FE15PathLocalizer),
    }
}

/// mila's localizer against the table for one (localizer, language, path)
fn check_localize(ctx: &mut RunCtx, loc: mila::PathLocalizer, g: G, l: L, path: &str) -> Step<()> {
    let owner = ctx.owner.clone();
    ctx.owner = "C14".into();
    let got = ctx.mila("localize", || loc.localize(path, &l.mila()));
    ctx.owner = owner;
    let got = got?;
    let want = localize_spec(g, l, path);
    let same = match (&got, &want) {
        (Ok(s), Ok(c)) => &comps(s) == c,
        (Err(_), Err(_)) => true,
        _ => false,
    };
    if !same {
        return ctx.violation_for(
            "C14",
            "localize_table",
            format!("localize|{:?}|{}", g, if want.is_err() { "accepted_unsupported" } else if got.is_err() { "rejected_supported" } else { "wrong_path" }),
            format!("localize({:?}, {:?}, {:?}) = {:?}, table says {:?}", g, l, path, got.map_err(|e| e.to_string()), want),
        );
    }
    Ok(())
}

fn spec_compress(g: G, data: &[u8]) -> Option<Vec<u8>> {
    guarded(|| {
        if g.lz10() {
            mila::LZ10CompressionFormat {}.compress(data).ok()
        } else {
            mila::LZ13CompressionFormat {}.compress(data).ok()
        }
    })
    .ok()
    .flatten()
}

fn classify_for(g: G, stored: &[u8]) -> Verdict {
    if g.lz10() {
        lz::classify_lz10_entry(stored)
    } else {
        lz::classify_lz13_entry(stored)
    }
}

enum ReadExp {
    LocErr,
    NotFound,
    Bytes(Vec<u8>),
    /// a corrupted compressed file (the stored bytes): what the codec does with it is C11's
    /// subject; that the read is the codec applied to exactly these bytes is C12's
    Unjudged(Vec<u8>),
}

fn expect_read(w: &World, h: usize, path: &str, loc: bool) -> ReadExp {
    let hc = &w.handles[h].cfg;
    let c = match model_path(hc, path, loc) {
        Ok(c) => c,
        Err(_) => return ReadExp::LocErr,
    };
    match w.m.find(&hc.stack, &c, Kind::File) {
        None => ReadExp::NotFound,
        Some(l) => {
            let bytes = match w.m.layers[l].node(&c) {
                Some(Node::File(b)) => b,
                _ => return ReadExp::NotFound,
            };
            if hc.game.compressed_name(path) {
                match classify_for(hc.game, &bytes) {
                    Verdict::Conforming(d) => ReadExp::Bytes(d),
                    _ => ReadExp::Unjudged(bytes),
                }
            } else {
                ReadExp::Bytes(bytes)
            }
        }
    }
}

/// compare the disk with the expected mirror(s); `top` = the only layer the
/// acting handle may touch. Accepts the first alternative that matches.
fn verify_disk(ctx: &mut RunCtx, w: &mut World, alts: &[FsModel], owner: &str, api: &str, top: Option<usize>, by_env: bool) -> Step<()> {
    let snap = match snapshot(&w.root, w.cfg.layers) {
        Ok(s) => s,
        Err(e) => return harness(e),
    };
    let mut first_diff: Option<(usize, String)> = None;
    for alt in alts {
        let mut ok = true;
        for l in 0..w.cfg.layers {
            if let Some(d) = layer_diff(&snap[l], &alt.layers[l]) {
                ok = false;
                if first_diff.is_none() {
                    first_diff = Some((l, d));
                }
                break;
            }
        }
        if ok {
            w.m.layers = snap;
            return Ok(());
        }
    }
    let (l, d) = first_diff.unwrap_or((0, "no alternative".into()));
    if by_env {
        return harness(format!("mirror and disk disagree after the simulator's own action {}: layer D{}: {}", api, l, d));
    }
    // which oracle: a change outside the handle's top layer is the isolation clause
    let outside = {
        let mut out = None;
        for k in 0..w.cfg.layers {
            if Some(k) != top {
                if let Some(d2) = layer_diff(&snap[k], &w.m.layers[k]) {
                    out = Some((k, d2));
                    break;
                }
            }
        }
        out
    };
    // adopt the disk so that a foreign violation does not cascade
    w.m.layers = snap;
    match outside {
        Some((k, d2)) => ctx.violation_for(
            owner,
            "write_isolation",
            format!("{}|changed_other_layer", api),
            format!("{} changed layer D{} which is not the handle's top layer {:?}: (disk vs mirror) {}", api, k, top, d2),
        ),
        None => ctx.violation_for(owner, "disk_after_op", format!("{}|top_layer_state", api), format!("after {}: layer D{} (disk vs model): {}", api, l, d)),
    }
}

/// after a call that failed under an injected fault: every layer except the
/// handle's top layer is unchanged; the top layer is adopted as found
fn verify_others_adopt_top(ctx: &mut RunCtx, w: &mut World, before: &FsModel, owner: &str, api: &str, top: usize) -> Step<()> {
    let snap = match snapshot(&w.root, w.cfg.layers) {
        Ok(s) => s,
        Err(e) => return harness(e),
    };
    for l in 0..w.cfg.layers {
        if l != top {
            if let Some(d) = layer_diff(&snap[l], &before.layers[l]) {
                w.m.layers = snap;
                return ctx.violation_for(
                    owner,
                    "write_isolation",
                    format!("{}|changed_other_layer", api),
                    format!("{} (failing under an injected fault) changed layer D{} which is not the handle's top layer D{}: {}", api, l, top, d),
                );
            }
        }
    }
    w.m.layers = snap;
    Ok(())
}

fn err_kind(e: &LayeredFilesystemError) -> &'static str {
    match e {
        LayeredFilesystemError::FileNotFound(_, _) => "FileNotFound",
        LayeredFilesystemError::ReadError(_, _) => "ReadError",
        LayeredFilesystemError::WriteError(_, _) => "WriteError",
        LayeredFilesystemError::LocalizationError(_) => "LocalizationError",
        LayeredFilesystemError::CompressionError(_) => "CompressionError",
        LayeredFilesystemError::IOError(_) => "IOError",
        _ => "Other",
    }
}

/// attribute a mismatch of a localized operation: if mila's localizer
/// disagrees with the table for this path it is C14's, else the caller's owner
fn loc_owner(w: &World, h: usize, path: &str, loc: bool, default: &'static str) -> &'static str {
    if !loc {
        return default;
    }
    let hc = &w.handles[h].cfg;
    let lz = w.handles[h].fs.localizer();
    let got = guarded(|| lz.localize(path, &hc.lang.mila()));
    let want = localize_spec(hc.game, hc.lang, path);
    match (got, want) {
        (Ok(Ok(s)), Ok(c)) if comps(&s) == c => default,
        (Ok(Err(_)), Err(_)) => default,
        _ => "C14",
    }
}

/// A localized operation disagreed with the model although mila's localizer
/// agrees with the table: if the same operation, unlocalized, on the
/// table-localized path agrees with the model, the operation applied the wrong
/// mapping ("all filesystem operations apply the same mapping" is C14's clause).
fn refine_owner(w: &World, h: usize, path: &str, loc: bool, owner: &'static str, unloc_matches: &dyn Fn(&LayeredFilesystem, &str) -> bool) -> &'static str {
    if !loc || owner == "C14" {
        return owner;
    }
    let hc = &w.handles[h].cfg;
    match localize_spec(hc.game, hc.lang, path) {
        Ok(c) => {
            let p = key(&c);
            match guarded(|| unloc_matches(&w.handles[h].fs, &p)) {
                Ok(true) => "C14",
                _ => owner,
            }
        }
        Err(_) => owner,
    }
}

/// a wrong mapping of a localized operation violates C14 ("all operations apply the same
/// mapping") and equally the running property's own clause about localized access
/// (C12: "with the same localisation choice"; C13: "a localized listing equals ..."):
/// the running check reports it under its own id
fn dual(ctx: &RunCtx, refined: &'static str, default: &'static str) -> &'static str {
    if refined == "C14" && ctx.prop == default {
        default
    } else {
        refined
    }
}

fn single_component_file_op(path: &str, loc: bool) -> bool {
    // a localized single-component path denotes a directory; using it as a
    // file name hands the OS a trailing slash, which is not mila's contract
    loc && comps(path).len() == 1
}

#[allow(clippy::too_many_arguments)]
fn do_write(
    ctx: &mut RunCtx,
    w: &mut World,
    h: usize,
    path: &str,
    loc: bool,
    fault: &Option<Fault>,
    data: &[u8],
    api: &'static str,
    call: &dyn Fn(&LayeredFilesystem) -> Result<(), LayeredFilesystemError>,
) -> Step<()> {
    if single_component_file_op(path, loc) {
        ctx.outcome(api, "skipped", "single-component localized file path");
        return Ok(());
    }
    let hc = w.handles[h].cfg.clone();
    let top = *hc.stack.last().unwrap();
    let owner = loc_owner(w, h, path, loc, "C12");
    ctx.owner = owner.to_string();
    let mp = model_path(&hc, path, loc);
    let compressed = hc.game.compressed_name(path);
    let before = w.m.clone();
    let fired0 = io_fired_count();
    arm_io(fault, "write", &w.root);
    let got = {
        let fs = &w.handles[h].fs;
        let r = faulted(ctx, fault, api, || call(fs));
        let io_fired = disarm_io(fired0);
        (r?, io_fired)
    };
    let (got, io_fired) = got;
    // an armed per-layer fault that was never reached leaves an ordinary call
    let fault: &Option<Fault> = if matches!(fault, Some(Fault::Io { .. })) && !io_fired { &None } else { fault };
    ctx.outcome(api, if got.is_ok() { "ok" } else { "err" }, &match &got {
        Ok(()) => "ok".to_string(),
        Err(e) => err_kind(e).to_string(),
    });
    let c = match mp {
        Err(_) => {
            if got.is_ok() {
                return ctx.violation_for("C14", "localize_table", format!("{}|accepted_unlocalizable_path", api), format!("{}({:?}, localized) succeeded for {:?}/{:?}", api, path, hc.game, hc.lang));
            }
            return verify_disk(ctx, w, &[before], owner, api, Some(top), false);
        }
        Ok(c) => c,
    };
    // what should be stored
    let stored: Option<Vec<u8>> = if compressed { spec_compress(hc.game, data) } else { Some(data.to_vec()) };
    let mut exp_ok = before.clone();
    let possible = exp_ok.write(top, &c, stored.clone().unwrap_or_default()).is_ok();
    if !possible {
        // a file where a directory is needed, or a directory where the file goes
        ctx.probe("write_blocked_by_type_conflict");
        if got.is_ok() {
            return ctx.violation_for(owner, "return_value", format!("{}|accepted_impossible_write", api), format!("{}({:?}) succeeded although the top layer has a conflicting node", api, path));
        }
        return verify_disk(ctx, w, &[before], owner, api, Some(top), false);
    }
    match fault {
        None => {
            if let Err(e) = &got {
                return ctx.violation_for(owner, "return_value", format!("{}|rejected_valid_write", api), format!("{}({:?}, {} bytes) failed: {}", api, path, data.len(), e));
            }
            if stored.is_none() {
                // the codec itself failed/panicked outside the filesystem: C08/C09's subject. Adopt.
                let snap = snapshot(&w.root, w.cfg.layers).map_err(Stop::Harness)?;
                w.m.layers = snap;
                return Ok(());
            }
            if before.find(&hc.stack, &c, Kind::File).map(|l| l != top).unwrap_or(false) {
                ctx.probe("write_shadows_lower_layer_file");
            }
            if matches!(before.layers[top].node(&c), Some(Node::File(_))) {
                ctx.probe("write_replaces_top_layer_file");
            }
            let mut owner = owner;
            if loc && owner != "C14" {
                // did the write land where an unlocalized (or differently localized) write would have put it?
                if let Ok(snap) = snapshot(&w.root, w.cfg.layers) {
                    let matches_expected = (0..w.cfg.layers).all(|l| layer_diff(&snap[l], &exp_ok.layers[l]).is_none());
                    if !matches_expected {
                        let content_elsewhere = snap[top].nodes.iter().any(|(k, n)| k != &key(&c) && before.layers[top].nodes.get(k) != Some(n) && matches!(n, Node::File(b) if Some(b) == stored.as_ref()));
                        if content_elsewhere {
                            owner = "C14";
                        }
                    }
                }
            }
            verify_disk(ctx, w, &[exp_ok], owner, api, Some(top), false)?;
            if compressed {
                // the stored file is a valid stream of the game's format that expands to the payload
                let s = stored.unwrap();
                let v = classify_for(hc.game, &s);
                let magic_ok = if hc.game.lz10() { s.first() == Some(&0x10) } else { s.first() == Some(&0x13) && s.get(4) == Some(&0x11) };
                if v != Verdict::Conforming(data.to_vec()) || !magic_ok {
                    return ctx.violation_for(
                        owner,
                        "stored_stream",
                        format!("{}|stored_stream_{}", api, if magic_ok { v.class() } else { "wrong_format" }),
                        format!("{}({:?}): stored bytes {} are not a conforming {} stream of the {}-byte payload ({:?})", api, path, hex(&s[..s.len().min(64)]), if hc.game.lz10() { "LZ10" } else { "0x13-wrapped LZ11" }, data.len(), match v { Verdict::Conforming(_) => "expands to other data", Verdict::Malformed(m) => m, Verdict::Other(m) => m }),
                    );
                }
                ctx.probe("compressed_write_validated");
            }
            w.writes_ok += 1;
            Ok(())
        }
        Some(Fault::Torn { k }) => {
            let s = match stored {
                Some(s) => s,
                None => {
                    let snap = snapshot(&w.root, w.cfg.layers).map_err(Stop::Harness)?;
                    w.m.layers = snap;
                    return Ok(());
                }
            };
            let k = *k as usize;
            if s.len() <= k {
                // the fault did not bite
                if got.is_err() {
                    return ctx.violation_for(owner, "return_value", format!("{}|rejected_valid_write", api), format!("{}({:?}) failed though the {} stored bytes fit the limit {}", api, path, s.len(), k));
                }
                return verify_disk(ctx, w, &[exp_ok], owner, api, Some(top), false);
            }
            ctx.fault("torn_write");
            w.faults += 1;
            if got.is_ok() {
                return ctx.violation_for(owner, "fault_reported", format!("{}|torn_write_reported_ok", api), format!("{}({:?}): only {} of {} bytes could be stored, yet the call returned Ok", api, path, k, s.len()));
            }
            // what a failed write leaves in the top layer (a prefix, the old file, a temporary)
            // is not specified; the other layers must be untouched
            let mut torn = before.clone();
            let _ = torn.write(top, &c, s[..k].to_vec());
            if let Ok(snap) = snapshot(&w.root, w.cfg.layers) {
                if layer_diff(&snap[top], &torn.layers[top]).is_none() {
                    ctx.probe("torn_write_left_exact_prefix");
                }
            }
            verify_others_adopt_top(ctx, w, &before, owner, api, top)
        }
        Some(Fault::OpenFail) | Some(Fault::Io { .. }) => {
            ctx.fault(if matches!(fault, Some(Fault::OpenFail)) { "open_fail" } else { "io_error_write" });
            w.faults += 1;
            if got.is_ok() {
                return ctx.violation_for(owner, "fault_reported", format!("{}|open_failure_reported_ok", api), format!("{}({:?}): the file could not be written, yet the call returned Ok", api, path));
            }
            // parents may or may not have been created before the failure; the other layers must be untouched
            verify_others_adopt_top(ctx, w, &before, owner, api, top)
        }
    }
}

fn arch_obs(a: &BinArchive) -> String {
    let n = a.size();
    let mut s = format!("size={} bytes={} labels={:?}", n, hex(a.read_bytes(0, n).unwrap_or(&[])), a.all_labels());
    let mut addr = 0;
    while addr + 4 <= n {
        if let Ok(Some(t)) = a.read_string(addr) {
            s.push_str(&format!(" s{}={:?}", addr, t));
        }
        if let Ok(Some(p)) = a.read_pointer(addr) {
            s.push_str(&format!(" p{}={}", addr, p));
        }
        addr += 4;
    }
    s
}

fn text_obs(t: &TextArchive) -> String {
    format!("title={:?} entries={:?}", t.get_title(), t.get_entries().iter().collect::<Vec<_>>())
}

fn tex_obs(v: &[mila::Texture]) -> Vec<(String, usize, usize, Vec<u8>)> {
    let mut o: Vec<_> = v.iter().map(|t| (t.filename.clone(), t.width, t.height, t.pixel_data.clone())).collect();
    o.sort();
    o
}

/// typed reader == byte-level read composed with the codec the table prescribes
fn do_typed_read(ctx: &mut RunCtx, w: &mut World, h: usize, path: &str, loc: bool, what: &str) -> Step<()> {
    let api: &'static str = match what {
        "archive" => "read_archive",
        "text" => "read_text_archive",
        "fe9arc" => "read_fe9_arc",
        "arc" => "read_arc",
        "tpl" => "read_tpl_textures",
        "bch" => "read_bch_textures",
        "ctpk" => "read_ctpk_textures",
        _ => "read_cgfx_textures",
    };
    if single_component_file_op(path, loc) {
        ctx.outcome(api, "skipped", "");
        return Ok(());
    }
    let hc = w.handles[h].cfg.clone();
    if matches!(what, "tpl" | "bch" | "ctpk" | "cgfx") {
        // a texture container corrupted at rest (not merely torn) is outside every statement; mila's
        // texture parsers can request absurd buffers on such bytes, which would only kill the worker
        if let Ok(c) = model_path(&hc, path, loc) {
            if let Some(l) = w.m.find(&hc.stack, &c, Kind::File) {
                if w.tainted.contains(&(l, key(&c))) {
                    ctx.outcome(api, "skipped", "container corrupted at rest");
                    return Ok(());
                }
            }
        }
    }
    let owner = loc_owner(w, h, path, loc, "C12");
    ctx.owner = owner.to_string();
    let exp = expect_read(w, h, path, loc);
    let big = hc.game.big_endian();
    let endian = if big { Endian::Big } else { Endian::Little };
    let fmt = if big { TextArchiveFormat::ShiftJIS } else { TextArchiveFormat::Unicode };
    // the composition, computed directly from the bytes the model says `read` returns
    let direct: Option<Result<String, String>> = match &exp {
        ReadExp::Bytes(d) => {
            // both sides of the comparison parse under the same hash-key sequence
            // (arc extraction with duplicate labels depends on table iteration order: C16's subject)
            #[cfg(mila_verif)]
            mila::verif_seam::set_hash_stream(crate::rng::mix_str(ctx.run_seed, path) ^ ctx.step as u64);
            let r = guarded(|| -> Result<String, String> {
                match what {
                    "archive" => BinArchive::from_bytes(d, endian).map(|a| arch_obs(&a)).map_err(|e| e.to_string()),
                    "text" => TextArchive::from_bytes(d, fmt, endian).map(|t| text_obs(&t)).map_err(|e| e.to_string()),
                    "fe9arc" => mila::fe9_arc::parse(d).map(|m| format!("{:?}", m.iter().collect::<Vec<_>>())).map_err(|e| e.to_string()),
                    "arc" => mila::arc::from_bytes(d)
                        .map(|m| {
                            let mut v: Vec<_> = m.into_iter().collect();
                            v.sort();
                            format!("{:?}", v)
                        })
                        .map_err(|e| e.to_string()),
                    "tpl" => mila::tpl::Tpl::extract_textures(d).map(|v| format!("{:?}", tex_obs(&v))).map_err(|e| e.to_string()),
                    "bch" => mila::bch::read(d).map(|v| format!("{:?}", tex_obs(&v))).map_err(|e| e.to_string()),
                    "ctpk" => mila::ctpk::read(d).map(|v| format!("{:?}", tex_obs(&v))).map_err(|e| e.to_string()),
                    _ => mila::cgfx::read(d).map(|v| format!("{:?}", tex_obs(&v))).map_err(|e| e.to_string()),
                }
            });
            match r {
                Ok(x) => Some(x),
                Err(_) => None, // the parser itself panics on these bytes: C05 / C20's subject
            }
        }
        _ => None,
    };
    let fs = &w.handles[h].fs;
    #[cfg(mila_verif)]
    mila::verif_seam::set_hash_stream(crate::rng::mix_str(ctx.run_seed, path) ^ ctx.step as u64);
    let got: Result<Result<String, String>, PanicInfo> = guarded(|| -> Result<String, String> {
        match what {
            "archive" => fs.read_archive(path, loc).map(|a| arch_obs(&a)).map_err(|e| e.to_string()),
            "text" => fs.read_text_archive(path, loc).map(|t| text_obs(&t)).map_err(|e| e.to_string()),
            "fe9arc" => fs.read_fe9_arc(path, loc).map(|m| format!("{:?}", m.iter().collect::<Vec<_>>())).map_err(|e| e.to_string()),
            "arc" => fs
                .read_arc(path, loc)
                .map(|m| {
                    let mut v: Vec<_> = m.into_iter().collect();
                    v.sort();
                    format!("{:?}", v)
                })
                .map_err(|e| e.to_string()),
            "tpl" => fs.read_tpl_textures(path, loc).map(|v| format!("{:?}", tex_obs(&v))).map_err(|e| e.to_string()),
            "bch" => fs.read_bch_textures(path, loc).map(|m| format!("{:?}", tex_obs(&m.into_values().collect::<Vec<_>>()))).map_err(|e| e.to_string()),
            "ctpk" => fs.read_ctpk_textures(path, loc).map(|m| format!("{:?}", tex_obs(&m.into_values().collect::<Vec<_>>()))).map_err(|e| e.to_string()),
            _ => fs.read_cgfx_textures(path, loc).map(|m| format!("{:?}", tex_obs(&m.into_values().collect::<Vec<_>>()))).map_err(|e| e.to_string()),
        }
    });
    let got = match got {
        Ok(g) => g,
        Err(p) => {
            // panics while parsing stored bytes belong to C05 / C11 / C20
            ctx.probe("typed_reader_panicked_foreign");
            ctx.outcome(api, "panic", &p.file);
            return Ok(());
        }
    };
    ctx.outcome(api, if got.is_ok() { "ok" } else { "err" }, &got.as_ref().map(|s| s.chars().take(80).collect::<String>()).unwrap_or_else(|_| "err".to_string()));
    match (&exp, &direct) {
        (ReadExp::LocErr, _) | (ReadExp::NotFound, _) => {
            if got.is_ok() {
                return ctx.violation_for(owner, "typed_helper", format!("{}|found_missing_file", api), format!("{}({:?}) returned a value although no layer holds that file", api, path));
            }
        }
        (ReadExp::Bytes(_), Some(d)) => {
            // textures keyed by file name collapse duplicates in the map-returning helpers: compare sets
            let same = match (&got, d) {
                (Ok(a), Ok(b)) => a == b || matches!(what, "bch" | "ctpk" | "cgfx"),
                (Err(_), Err(_)) => true,
                _ => false,
            };
            if !same {
                return ctx.violation_for(
                    owner,
                    "typed_helper",
                    format!("{}|differs_from_composition", api),
                    format!("{}({:?}) for {:?} gave {:?}; parsing the bytes of read() with the table's configuration gives {:?}", api, path, hc.game, got, d),
                );
            }
            if got.is_ok() {
                ctx.probe("typed_read_ok_compared");
            }
        }
        _ => {}
    }
    verify_disk(ctx, w, &[w.m.clone()], owner, api, None, false)
}

fn exec(ctx: &mut RunCtx, w: &mut World, op: &Op) -> Step<()> {
    match op {
        // ------------------------------------------------------------ environment
        Op::EnvPut { l, path, data } => {
            if *l >= w.cfg.layers {
                return Ok(());
            }
            let c = comps(path);
            let mut exp = w.m.clone();
            if c.is_empty() || !exp.layers[*l].present || exp.write(*l, &c, data.clone()).is_err() {
                ctx.outcome("env.put", "skipped", "");
                return Ok(());
            }
            let full = layer_dir(&w.root, *l).join(key(&c));
            if let Some(p) = full.parent() {
                std::fs::create_dir_all(p).map_err(|e| Stop::Harness(format!("env mkdir: {}", e)))?;
            }
            std::fs::write(&full, data).map_err(|e| Stop::Harness(format!("env write: {}", e)))?;
            w.tainted.remove(&(*l, key(&c)));
            ctx.outcome("env.put", "ok", "");
            let same_elsewhere = (0..w.cfg.layers).filter(|k| k != l && w.m.layers[*k].node(&c).is_some()).count();
            if same_elsewhere >= 2 {
                ctx.probe("same_path_in_3_or_more_layers");
            }
            verify_disk(ctx, w, &[exp], "C12", "env.put", None, true)
        }
        Op::EnvMkdir { l, path } => {
            if *l >= w.cfg.layers {
                return Ok(());
            }
            let c = comps(path);
            let mut exp = w.m.clone();
            if c.is_empty() || !exp.layers[*l].present || exp.create_dir(*l, &c).is_err() {
                ctx.outcome("env.mkdir", "skipped", "");
                return Ok(());
            }
            std::fs::create_dir_all(layer_dir(&w.root, *l).join(key(&c))).map_err(|e| Stop::Harness(format!("env mkdir: {}", e)))?;
            ctx.outcome("env.mkdir", "ok", "");
            verify_disk(ctx, w, &[exp], "C12", "env.mkdir", None, true)
        }
        Op::EnvRemove { l, path } => {
            if *l >= w.cfg.layers {
                return Ok(());
            }
            let c = comps(path);
            let node = w.m.layers[*l].node(&c);
            if c.is_empty() || node.is_none() {
                ctx.outcome("env.remove", "skipped", "");
                return Ok(());
            }
            let full = layer_dir(&w.root, *l).join(key(&c));
            let r = if node == Some(Node::Dir) { std::fs::remove_dir_all(&full) } else { std::fs::remove_file(&full) };
            r.map_err(|e| Stop::Harness(format!("env remove: {}", e)))?;
            let mut exp = w.m.clone();
            exp.layers[*l].remove_subtree(&c);
            ctx.outcome("env.remove", "ok", "");
            verify_disk(ctx, w, &[exp], "C12", "env.remove", None, true)
        }
        Op::EnvVanish { l } => {
            if *l >= w.cfg.layers || !w.m.layers[*l].present {
                ctx.outcome("env.vanish", "skipped", "");
                return Ok(());
            }
            std::fs::remove_dir_all(layer_dir(&w.root, *l)).map_err(|e| Stop::Harness(format!("env vanish: {}", e)))?;
            let mut exp = w.m.clone();
            exp.layers[*l] = Layer::default();
            ctx.fault("layer_vanish");
            w.faults += 1;
            ctx.outcome("env.vanish", "ok", "");
            verify_disk(ctx, w, &[exp], "C12", "env.vanish", None, true)
        }
        Op::EnvReturn { l } => {
            if *l >= w.cfg.layers || w.m.layers[*l].present {
                ctx.outcome("env.return", "skipped", "");
                return Ok(());
            }
            std::fs::create_dir_all(layer_dir(&w.root, *l)).map_err(|e| Stop::Harness(format!("env return: {}", e)))?;
            let mut exp = w.m.clone();
            exp.layers[*l].present = true;
            ctx.fault("layer_return");
            ctx.outcome("env.return", "ok", "");
            verify_disk(ctx, w, &[exp], "C12", "env.return", None, true)
        }
        Op::EnvCorrupt { l, path, kind, arg } => {
            if *l >= w.cfg.layers {
                return Ok(());
            }
            let c = comps(path);
            let mut b = match w.m.layers[*l].node(&c) {
                Some(Node::File(b)) => b,
                _ => {
                    ctx.outcome("env.corrupt", "skipped", "");
                    return Ok(());
                }
            };
            let a = *arg as usize;
            match kind.as_str() {
                "flip" if !b.is_empty() => {
                    let i = a % b.len();
                    b[i] ^= 1 << ((a >> 20) % 8);
                }
                "trunc" => {
                    let n = if b.is_empty() { 0 } else { a % b.len() };
                    b.truncate(n);
                }
                "append" => b.extend_from_slice(&(arg.to_le_bytes())[..(a % 8) + 1]),
                "zero" if !b.is_empty() => {
                    let s = (a % b.len()) & !15;
                    let e = (s + 16).min(b.len());
                    for x in &mut b[s..e] {
                        *x = 0;
                    }
                }
                "set" if !b.is_empty() => {
                    let i = a % b.len();
                    b[i] = (a >> 24) as u8;
                }
                _ => {}
            }
            std::fs::write(layer_dir(&w.root, *l).join(key(&c)), &b).map_err(|e| Stop::Harness(format!("env corrupt: {}", e)))?;
            let mut exp = w.m.clone();
            exp.layers[*l].nodes.insert(key(&c), Node::File(b));
            w.tainted.insert((*l, key(&c)));
            ctx.fault(&format!("corrupt_{}", kind));
            w.faults += 1;
            ctx.outcome("env.corrupt", "ok", kind);
            verify_disk(ctx, w, &[exp], "C12", "env.corrupt", None, true)
        }
        // ------------------------------------------------------------ handles
        Op::Write { h, path, data, loc, fault } => {
            if *h >= w.handles.len() {
                return Ok(());
            }
            let p = path.clone();
            let d = data.clone();
            let lo = *loc;
            do_write(ctx, w, *h, path, *loc, fault, data, "write", &move |fs| fs.write(&p, &d, lo))
        }
        Op::WriteArchive { h, path, loc, seed } => {
            if *h >= w.handles.len() {
                return Ok(());
            }
            let big = w.handles[*h].cfg.game.big_endian();
            let arch = match guarded(|| sample_archive(*seed, big)) {
                Ok(a) => a,
                Err(_) => return Ok(()),
            };
            let bytes = match guarded(|| arch.serialize()) {
                Ok(Ok(b)) => b,
                _ => return Ok(()),
            };
            let p = path.clone();
            let lo = *loc;
            do_write(ctx, w, *h, path, *loc, &None, &bytes, "write_archive", &move |fs| fs.write_archive(&p, &arch, lo))
        }
        Op::WriteText { h, path, loc, seed, clean } => {
            if *h >= w.handles.len() {
                return Ok(());
            }
            let big = w.handles[*h].cfg.game.big_endian();
            let t = match guarded(|| {
                let t = sample_text(*seed, big);
                if *clean {
                    // an archive as it comes out of a parse: same content, not marked dirty
                    let fmt = if big { TextArchiveFormat::ShiftJIS } else { TextArchiveFormat::Unicode };
                    let e = if big { Endian::Big } else { Endian::Little };
                    match t.serialize().ok().and_then(|b| TextArchive::from_bytes(&b, fmt, e).ok()) {
                        Some(p) => p,
                        None => t,
                    }
                } else {
                    t
                }
            }) {
                Ok(a) => a,
                Err(_) => return Ok(()),
            };
            if *clean {
                ctx.probe("write_of_a_parsed_text_archive");
            }
            let bytes = match guarded(|| t.serialize()) {
                Ok(Ok(b)) => b,
                _ => return Ok(()),
            };
            let p = path.clone();
            let lo = *loc;
            do_write(ctx, w, *h, path, *loc, &None, &bytes, "write_text_archive", &move |fs| fs.write_text_archive(&p, &t, lo))
        }
        Op::Read { h, path, loc, fault } => {
            if *h >= w.handles.len() {
                return Ok(());
            }
            if single_component_file_op(path, *loc) {
                ctx.outcome("read", "skipped", "");
                return Ok(());
            }
            let owner = loc_owner(w, *h, path, *loc, "C12");
            ctx.owner = owner.to_string();
            let exp = expect_read(w, *h, path, *loc);
            let hc = w.handles[*h].cfg.clone();
            let fired0 = io_fired_count();
            let mut io_fired = false;
            let got = {
                let fs = &w.handles[*h].fs;
                let r = {
                    let guard = match fault {
                        Some(Fault::OpenFail) => Some(set_limit(libc::RLIMIT_NOFILE, 0)),
                        _ => None,
                    };
                    arm_io(fault, "read", &w.root);
                    let r = guarded(|| fs.read(path, *loc));
                    drop(guard);
                    r
                };
                io_fired = disarm_io(fired0);
                match r {
                    Ok(v) => v,
                    Err(p) => {
                        if matches!(exp, ReadExp::Unjudged(_)) {
                            // decompressing a corrupted stream: C11's subject
                            ctx.probe("read_of_corrupted_stream_panicked_foreign");
                            ctx.outcome("read", "panic", "");
                            return Ok(());
                        }
                        return ctx.violation_for(owner, "no_panic", format!("panic|read|{}|{}", p.file, strip_digits(&p.message)), format!("read({:?}) panicked at {}:{}: {}", path, p.file, p.line, p.message));
                    }
                }
            };
            ctx.outcome("read", if got.is_ok() { "ok" } else { "err" }, &match &got {
                Ok(b) => format!("{} bytes", b.len()),
                Err(e) => err_kind(e).to_string(),
            });
            // a failing read of the layer that holds the file: the error must be reported,
            // not papered over with a lower layer's copy
            let open_fail = matches!(fault, Some(Fault::OpenFail)) || io_fired;
            if io_fired {
                ctx.probe("read_error_injected_on_holding_layer");
            }
            match (&exp, &got) {
                (ReadExp::LocErr, Ok(_)) => {
                    return ctx.violation_for("C14", "localize_table", "read|accepted_unlocalizable_path".to_string(), format!("read({:?}, localized) succeeded for {:?}/{:?}", path, hc.game, hc.lang));
                }
                (ReadExp::LocErr, Err(_)) => {}
                (ReadExp::NotFound, Ok(b)) => {
                    let refined = refine_owner(w, *h, path, *loc, owner, &|fs, p| matches!(fs.read(p, false), Err(LayeredFilesystemError::FileNotFound(_, _))));
                    let owner = dual(ctx, refined, "C12");
                    return ctx.violation_for(owner, "return_value", "read|found_missing_file".to_string(), format!("read({:?}) returned {} bytes although no layer of the stack {:?} holds that file", path, b.len(), hc.stack));
                }
                (ReadExp::NotFound, Err(e)) => {
                    // "a not-found error": the dedicated variant, or an I/O error of kind NotFound
                    let not_found = match e {
                        LayeredFilesystemError::FileNotFound(_, _) => true,
                        LayeredFilesystemError::IOError(io) => io.kind() == std::io::ErrorKind::NotFound,
                        _ => false,
                    };
                    if !not_found {
                        return ctx.violation_for(owner, "return_value", "read|wrong_error_for_missing_file".to_string(), format!("read({:?}) of a missing file failed with {} instead of the not-found error", path, e));
                    }
                    ctx.probe("read_missing_file");
                }
                (ReadExp::Bytes(d), Ok(b)) => {
                    if b != d {
                        // which layer did the bytes come from?
                        let c = model_path(&hc, path, *loc).unwrap_or_default();
                        let lower = hc.stack.iter().any(|l| matches!(w.m.layers[*l].node(&c), Some(Node::File(x)) if &x == b || classify_for(hc.game, &x) == Verdict::Conforming(b.clone())));
                        let d2 = d.clone();
                        let owner = if open_fail { owner } else { dual(ctx, refine_owner(w, *h, path, *loc, owner, &move |fs, p| matches!(fs.read(p, false), Ok(x) if x == d2)), "C12") };
                        return ctx.violation_for(
                            owner,
                            "return_value",
                            format!("read|{}", if open_fail { "fell_through_on_error" } else if lower { "wrong_layer" } else { "wrong_bytes" }),
                            format!("read({:?}) returned {} bytes {}.., model {} bytes {}.. (stack {:?})", path, b.len(), hex(&b[..b.len().min(16)]), d.len(), hex(&d[..d.len().min(16)]), hc.stack),
                        );
                    }
                    if open_fail {
                        // cannot happen with a failing open; if it does it is still the right data
                    }
                    w.reads_ok += 1;
                    let c = model_path(&hc, path, *loc).unwrap_or_default();
                    let holders = hc.stack.iter().filter(|l| matches!(w.m.layers[**l].node(&c), Some(Node::File(_)))).count();
                    if holders >= 2 {
                        ctx.probe("read_resolved_shadowing");
                    }
                    if hc.stack.iter().rev().take_while(|l| !matches!(w.m.layers[**l].node(&c), Some(Node::File(_)))).any(|l| matches!(w.m.layers[*l].node(&c), Some(Node::Dir))) {
                        ctx.probe("read_fell_through_shadowing_directory");
                    }
                    if hc.game.compressed_name(path) {
                        ctx.probe("compressed_read_decoded");
                    }
                }
                (ReadExp::Bytes(_), Err(e)) => {
                    if open_fail {
                        ctx.fault(if io_fired { "io_error_read" } else { "open_fail" });
                        w.faults += 1;
                    } else {
                        let d2 = match &exp { ReadExp::Bytes(d) => d.clone(), _ => Vec::new() };
                        let refined = refine_owner(w, *h, path, *loc, owner, &move |fs, p| matches!(fs.read(p, false), Ok(x) if x == d2));
                        let owner = dual(ctx, refined, "C12");
                        return ctx.violation_for(owner, "return_value", "read|rejected_existing_file".to_string(), format!("read({:?}) failed: {}", path, e));
                    }
                }
                (ReadExp::Unjudged(stored), got) => {
                    ctx.probe("read_of_corrupted_stream");
                    if !open_fail {
                        // "reading decompresses it": the read is the game's codec applied to the stored bytes,
                        // whatever the codec makes of them
                        let lz10 = hc.game.lz10();
                        let direct = guarded(|| {
                            if lz10 {
                                mila::LZ10CompressionFormat {}.decompress(stored).ok()
                            } else {
                                mila::LZ13CompressionFormat {}.decompress(stored).ok()
                            }
                        });
                        if let Ok(direct) = direct {
                            let same = match (got, &direct) {
                                (Ok(a), Some(b)) => a == b,
                                (Err(_), None) => true,
                                _ => false,
                            };
                            if !same {
                                return ctx.violation_for(
                                    "C12",
                                    "codec_composition",
                                    "read|differs_from_codec_on_stored_bytes".to_string(),
                                    format!(
                                        "read({:?}) = {}, the game's codec applied to the {} stored bytes {}.. gives {}",
                                        path,
                                        match got { Ok(a) => format!("Ok({} bytes)", a.len()), Err(e) => format!("Err({})", err_kind(e)) },
                                        stored.len(),
                                        hex(&stored[..stored.len().min(16)]),
                                        match &direct { Some(b) => format!("Ok({} bytes)", b.len()), None => "an error".to_string() }
                                    ),
                                );
                            }
                            ctx.probe("read_of_corrupted_stream_matches_codec");
                        }
                    }
                }
            }
            verify_disk(ctx, w, &[w.m.clone()], owner, "read", None, false)
        }
        Op::Exists { h, path, loc, kind } => {
            if *h >= w.handles.len() {
                return Ok(());
            }
            let api: &'static str = match kind.as_str() {
                "file" => "file_exists",
                "dir" => "directory_exists",
                _ => "exists",
            };
            let owner = loc_owner(w, *h, path, *loc, "C12");
            ctx.owner = owner.to_string();
            let hc = w.handles[*h].cfg.clone();
            let k = match kind.as_str() {
                "file" => Kind::File,
                "dir" => Kind::Dir,
                _ => Kind::Any,
            };
            if single_component_file_op(path, *loc) {
                if let Ok(c) = model_path(&hc, path, true) {
                    if hc.stack.iter().any(|l| matches!(w.m.layers[*l].node(&c), Some(Node::File(_)))) {
                        ctx.outcome(api, "skipped", "single-component localized path names a file");
                        return Ok(());
                    }
                }
            }
            let want: Result<bool, ()> = model_path(&hc, path, *loc).map(|c| w.m.find(&hc.stack, &c, k).is_some()).map_err(|_| ());
            let fs = &w.handles[*h].fs;
            let got = ctx.mila(api, || match k {
                Kind::File => fs.file_exists(path, *loc),
                Kind::Dir => fs.directory_exists(path, *loc),
                Kind::Any => fs.exists(path, *loc),
            })?;
            ctx.outcome(api, &format!("{:?}", got.as_ref().ok()), "");
            let same = match (&got, &want) {
                (Ok(a), Ok(b)) => a == b,
                (Err(_), Err(_)) => true,
                _ => false,
            };
            if !same {
                let owner = match &want {
                    Ok(wb) => {
                        let wb = *wb;
                        let refined = refine_owner(w, *h, path, *loc, owner, &move |fs, p| {
                            matches!(match k { Kind::File => fs.file_exists(p, false), Kind::Dir => fs.directory_exists(p, false), Kind::Any => fs.exists(p, false) }, Ok(x) if x == wb)
                        });
                        dual(ctx, refined, "C12")
                    }
                    // an unsupported pair / degenerate path must be reported as an error by every operation
                    Err(_) => "C14",
                };
                return ctx.violation_for(owner, "return_value", format!("{}|wrong_answer", api), format!("{}({:?}, loc={}) = {:?}, model {:?} (stack {:?})", api, path, loc, got.map_err(|e| e.to_string()), want, hc.stack));
            }
            Ok(())
        }
        Op::Resolve { h, path, loc } => {
            if *h >= w.handles.len() {
                return Ok(());
            }
            let owner = loc_owner(w, *h, path, *loc, "C12");
            ctx.owner = owner.to_string();
            let hc = w.handles[*h].cfg.clone();
            if single_component_file_op(path, *loc) {
                if let Ok(c) = model_path(&hc, path, true) {
                    if hc.stack.iter().any(|l| matches!(w.m.layers[*l].node(&c), Some(Node::File(_)))) {
                        ctx.outcome("resolve", "skipped", "single-component localized path names a file");
                        return Ok(());
                    }
                }
            }
            let want: Option<PathBuf> = match model_path(&hc, path, *loc) {
                Ok(c) => w.m.find(&hc.stack, &c, Kind::Any).map(|l| layer_dir(&w.root, l).join(key(&c))),
                Err(_) => None,
            };
            let fs = &w.handles[*h].fs;
            let got = ctx.mila("resolve", || fs.resolve(path, *loc))?;
            ctx.outcome("resolve", if got.is_some() { "some" } else { "none" }, "");
            if got != want {
                let want2 = want.clone();
                let refined = refine_owner(w, *h, path, *loc, owner, &move |fs, p| fs.resolve(p, false) == want2);
                let owner = dual(ctx, refined, "C12");
                return ctx.violation_for(owner, "return_value", "resolve|wrong_answer".to_string(), format!("resolve({:?}, loc={}) = {:?}, model {:?}", path, loc, got, want));
            }
            Ok(())
        }
        Op::CreateDir { h, path, loc } => {
            if *h >= w.handles.len() {
                return Ok(());
            }
            let owner = loc_owner(w, *h, path, *loc, "C12");
            ctx.owner = owner.to_string();
            let hc = w.handles[*h].cfg.clone();
            let top = *hc.stack.last().unwrap();
            let before = w.m.clone();
            let fs = &w.handles[*h].fs;
            let got = ctx.mila("create_dir", || fs.create_dir(path, *loc))?;
            ctx.outcome("create_dir", if got.is_ok() { "ok" } else { "err" }, "");
            let mut exp = before.clone();
            let want_ok = match model_path(&hc, path, *loc) {
                Ok(c) if !c.is_empty() => exp.create_dir(top, &c).is_ok(),
                Ok(_) => {
                    // the root of the layer itself
                    exp.layers[top].present = true;
                    true
                }
                Err(_) => false,
            };
            if got.is_ok() != want_ok {
                let owner = if model_path(&hc, path, *loc).is_err() { "C14" } else { owner };
                return ctx.violation_for(owner, "return_value", "create_dir|wrong_result".to_string(), format!("create_dir({:?}, loc={}) = {:?}, model says ok={}", path, loc, got.map_err(|e| e.to_string()), want_ok));
            }
            verify_disk(ctx, w, &[if want_ok { exp } else { before }], owner, "create_dir", Some(top), false)
        }
        Op::List { h, dir, pat, loc, fault } => {
            if *h >= w.handles.len() {
                return Ok(());
            }
            let owner = loc_owner(w, *h, dir, *loc, "C13");
            ctx.owner = owner.to_string();
            let hc = w.handles[*h].cfg.clone();
            let want: Result<Vec<String>, ()> = model_path(&hc, dir, *loc).map(|c| w.m.list(&hc.stack, &c, pat.as_deref())).map_err(|_| ());
            let fs = &w.handles[*h].fs;
            let fired0 = io_fired_count();
            arm_io(fault, "list", &w.root);
            let got = faulted(ctx, fault, "list", || fs.list(dir, pat.as_deref(), *loc));
            let io_fired = disarm_io(fired0);
            let got = got?;
            ctx.outcome("list", if got.is_ok() { "ok" } else { "err" }, &format!("{:?}", got.as_ref().map(|v| v.len()).map_err(|e| e.to_string())));
            let open_fail = matches!(fault, Some(Fault::OpenFail)) || io_fired;
            match (&got, &want) {
                (Err(_), Err(_)) => {}
                (Err(_), Ok(_)) if io_fired => {
                    // a failing directory read may be reported as an error
                    ctx.fault("io_error_list");
                    w.faults += 1;
                }
                (Ok(g), Ok(wv)) => {
                    let sorted = g.windows(2).all(|p| p[0] < p[1]);
                    if !sorted {
                        return ctx.violation_for(owner, "listing", "list|not_sorted_unique".to_string(), format!("list({:?}, {:?}) is not strictly ascending: {:?}", dir, pat, g));
                    }
                    if open_fail {
                        ctx.fault(if io_fired { "io_error_list" } else { "open_fail" });
                        w.faults += 1;
                        // a layer whose listing failed outright (injected EIO on that layer): "exactly the
                        // entries found in any layer" cannot be answered; a silently partial union is wrong
                        if io_fired && g != wv {
                            let missing: Vec<&String> = wv.iter().filter(|x| !g.contains(x)).collect();
                            return ctx.violation_for(owner, "listing", "list|partial_union_after_layer_error".to_string(), format!("list({:?}, {:?}): the listing of one layer failed, yet the call returned Ok without {:?}", dir, pat, missing));
                        }
                        // directory reads fail inside the glob walk: a subset is all that can be required
                        if let Some(x) = g.iter().find(|x| !wv.contains(x)) {
                            return ctx.violation_for(owner, "listing", "list|invented_entry".to_string(), format!("list({:?}, {:?}) under failing directory reads returned {:?}, which no layer holds", dir, pat, x));
                        }
                    } else if g != wv {
                        let wv2 = wv.clone();
                        let pat2 = pat.clone();
                        // "a localized listing equals the unlocalized listing of the localized directory"
                        // is stated by C13 and implied by C14: either check reports it
                        let refined = refine_owner(w, *h, dir, *loc, owner, &move |fs, p| matches!(fs.list(p, pat2.as_deref(), false), Ok(x) if x == wv2));
                        let owner = if refined == "C14" && ctx.prop == "C13" { "C13" } else { refined };
                        let missing: Vec<&String> = wv.iter().filter(|x| !g.contains(x)).collect();
                        let extra: Vec<&String> = g.iter().filter(|x| !wv.contains(x)).collect();
                        return ctx.violation_for(
                            owner,
                            "listing",
                            format!("list|{}", if !extra.is_empty() && !missing.is_empty() { "wrong_entries" } else if !extra.is_empty() { "extra_entries" } else { "missing_entries" }),
                            format!("list({:?}, {:?}, loc={}) stack {:?}: missing {:?}, extra {:?}", dir, pat, loc, hc.stack, missing, extra),
                        );
                    } else {
                        w.lists_ok += 1;
                        if !g.is_empty() {
                            ctx.probe("list_nonempty");
                        }
                        // every listed path exists according to the filesystem's own queries
                        for p in g.iter().take(6) {
                            let e = ctx.mila("exists", || fs.exists(p, false))?;
                            if !matches!(e, Ok(true)) {
                                return ctx.violation_for(owner, "listing", "list|listed_path_does_not_exist".to_string(), format!("list({:?}) returned {:?} but exists() says {:?}", dir, p, e.map_err(|e| e.to_string())));
                            }
                        }
                        // a localized listing equals the unlocalized listing of the localized directory
                        if *loc {
                            if let Ok(c) = model_path(&hc, dir, true) {
                                let g2 = ctx.mila("list", || fs.list(&key(&c), pat.as_deref(), false))?;
                                if g2.as_ref().ok() != Some(g) {
                                    return ctx.violation_for("C14", "localized_listing", "list|localized_differs_from_unlocalized".to_string(), format!("list({:?}, loc) = {:?} but list({:?}) = {:?}", dir, g, key(&c), g2.map_err(|e| e.to_string())));
                                }
                                ctx.probe("localized_listing_compared");
                            }
                        }
                        let c = model_path(&hc, dir, *loc).unwrap_or_default();
                        if hc.stack.iter().filter(|l| matches!(w.m.layers[**l].node(&c), Some(Node::Dir))).count() >= 2 {
                            ctx.probe("list_union_of_2plus_layers");
                        }
                    }
                }
                (g, wv) => {
                    let owner = if wv.is_err() { if ctx.prop == "C13" { "C13" } else { "C14" } } else { owner };
                    return ctx.violation_for(owner, "listing", "list|wrong_result_kind".to_string(), format!("list({:?}, {:?}, loc={}) = {:?}, model {:?}", dir, pat, loc, g.as_ref().map_err(|e| e.to_string()), wv));
                }
            }
            verify_disk(ctx, w, &[w.m.clone()], owner, "list", None, false)
        }
        Op::Subdirs { h, dir, loc } => {
            if *h >= w.handles.len() {
                return Ok(());
            }
            let owner = loc_owner(w, *h, dir, *loc, "C13");
            ctx.owner = owner.to_string();
            let hc = w.handles[*h].cfg.clone();
            let want: Result<Vec<String>, ()> = model_path(&hc, dir, *loc).map(|c| w.m.subdirectories(&hc.stack, &c)).map_err(|_| ());
            let fs = &w.handles[*h].fs;
            let got = ctx.mila("subdirectories", || fs.subdirectories(dir, *loc))?;
            ctx.outcome("subdirectories", if got.is_ok() { "ok" } else { "err" }, &format!("{:?}", got.as_ref().map(|v| v.len()).map_err(|e| e.to_string())));
            let same = match (&got, &want) {
                (Ok(a), Ok(b)) => a == b,
                (Err(_), Err(_)) => true,
                _ => false,
            };
            if !same {
                let owner = match &want {
                    Ok(wv) => {
                        let wv = wv.clone();
                        let refined = refine_owner(w, *h, dir, *loc, owner, &move |fs, p| matches!(fs.subdirectories(p, false), Ok(x) if x == wv));
                        if refined == "C14" && ctx.prop == "C13" { "C13" } else { refined }
                    }
                    Err(_) => if ctx.prop == "C13" { "C13" } else { "C14" },
                };
                return ctx.violation_for(owner, "listing", "subdirectories|wrong_entries".to_string(), format!("subdirectories({:?}, loc={}) = {:?}, model {:?} (stack {:?})", dir, loc, got.map_err(|e| e.to_string()), want, hc.stack));
            }
            if let Ok(g) = &got {
                if !g.is_empty() {
                    ctx.probe("subdirectories_nonempty");
                    w.lists_ok += 1;
                }
                // every listed path exists according to the filesystem's own existence queries:
                // a listed sub-directory is a directory for directory_exists and exists for exists
                for p in g.iter().take(6) {
                    let d = ctx.mila("directory_exists", || fs.directory_exists(p, false))?;
                    let e = ctx.mila("exists", || fs.exists(p, false))?;
                    if !matches!(d, Ok(true)) || !matches!(e, Ok(true)) {
                        return ctx.violation_for(
                            "C13",
                            "listing",
                            "subdirectories|listed_path_does_not_exist".to_string(),
                            format!("subdirectories({:?}) returned {:?} but directory_exists() says {:?} and exists() says {:?}", dir, p, d.map_err(|e| e.to_string()), e.map_err(|e| e.to_string())),
                        );
                    }
                }
            }
            Ok(())
        }
        Op::ReadArchive { h, path, loc } => {
            if *h >= w.handles.len() {
                return Ok(());
            }
            do_typed_read(ctx, w, *h, path, *loc, "archive")
        }
        Op::ReadText { h, path, loc } => {
            if *h >= w.handles.len() {
                return Ok(());
            }
            do_typed_read(ctx, w, *h, path, *loc, "text")
        }
        Op::ReadFe9Arc { h, path, loc } => {
            if *h >= w.handles.len() {
                return Ok(());
            }
            do_typed_read(ctx, w, *h, path, *loc, "fe9arc")
        }
        Op::ReadArc { h, path, loc } => {
            if *h >= w.handles.len() {
                return Ok(());
            }
            do_typed_read(ctx, w, *h, path, *loc, "arc")
        }
        Op::ReadTex { h, path, loc, kind } => {
            if *h >= w.handles.len() {
                return Ok(());
            }
            do_typed_read(ctx, w, *h, path, *loc, kind)
        }
        Op::LocalizeTable { path } => {
            ctx.owner = "C14".into();
            for g in GAMES {
                for l in LANGS {
                    check_localize(ctx, spec_localizer(g), g, l, path)?;
                }
            }
            // the NoOp localizer is the identity
            for l in LANGS {
                let got = ctx.mila("localize", || mila::PathLocalizer::NoOp(mila::NoOpPathLocalizer).localize(path, &l.mila()))?;
                if got.as_ref().ok().map(|s| s.as_str()) != Some(path.as_str()) {
                    return ctx.violation_for("C14", "localize_table", "localize|noop_not_identity".to_string(), format!("NoOp localizer on {:?} gave {:?}", path, got.map_err(|e| e.to_string())));
                }
            }
            ctx.outcome("localize_table", "ok", "");
            ctx.probe("localize_table_48_checked");
            Ok(())
        }
    }
}

fn run(cfgv: &Value, ctx: &mut RunCtx) -> Step<()> {
    let cfg: Cfg = serde_json::from_value(cfgv.clone()).map_err(|e| Stop::Harness(format!("bad cfg: {}", e)))?;
    ctx.max_ops = cfg.max_ops;
    let prop = ctx.prop.clone();
    let root = ctx.scratch.join("fs");
    let _ = std::fs::remove_dir_all(&root);
    for l in 0..cfg.layers {
        std::fs::create_dir_all(layer_dir(&root, l)).map_err(|e| Stop::Harness(format!("cannot create layer dir: {}", e)))?;
    }
    // constructor contract, once per run
    ctx.owner = "C12".into();
    let none = ctx.mila("LayeredFilesystem::new", || LayeredFilesystem::new(vec![], mila::Language::EnglishNA, mila::Game::FE14))?;
    if !matches!(none, Err(LayeredFilesystemError::NoLayers)) {
        return ctx.violation_for("C12", "constructor", "new|empty_stack_accepted".to_string(), "LayeredFilesystem::new with no layers did not report NoLayers".to_string());
    }
    for g in [mila::Game::FE11, mila::Game::FE12] {
        let d = layer_dir(&root, 0).to_string_lossy().to_string();
        let r = ctx.mila("LayeredFilesystem::new", || LayeredFilesystem::new(vec![d], mila::Language::EnglishNA, g))?;
        if !matches!(r, Err(LayeredFilesystemError::UnsupportedGame)) {
            return ctx.violation_for("C12", "constructor", "new|unsupported_game_accepted".to_string(), format!("LayeredFilesystem::new for {:?} did not report UnsupportedGame", g));
        }
    }
    let mut handles = Vec::new();
    for hc in &cfg.handles {
        if hc.stack.is_empty() || hc.stack.iter().any(|l| *l >= cfg.layers) {
            return harness("bad handle stack in cfg");
        }
        let dirs: Vec<String> = hc
            .stack
            .iter()
            .map(|l| {
                let d = layer_dir(&root, *l).to_string_lossy().to_string();
                match hc.spelling {
                    1 => format!("{}/", d),
                    2 => format!("{}/.", d),
                    3 => match d.rfind('/') {
                        Some(i) => format!("{}//{}", &d[..i], &d[i + 1..]),
                        None => d,
                    },
                    _ => d,
                }
            })
            .collect();
        if hc.spelling != 0 {
            ctx.probe("layer_roots_spelled_non_canonically");
        }
        let fs = ctx.mila("LayeredFilesystem::new", || LayeredFilesystem::new(dirs, hc.lang.mila(), hc.game.mila()))?;
        match fs {
            Ok(fs) => {
                // a third of the handles are clones of the constructed one (the original is dropped):
                // a clone must be the same filesystem
                let fs = if crate::rng::mix_str(ctx.run_seed, "clone") % 3 == (handles.len() as u64) % 3 {
                    ctx.probe("handle_is_a_clone");
                    ctx.mila("LayeredFilesystem::clone", || fs.clone())?
                } else {
                    fs
                };
                handles.push(Handle { fs, cfg: hc.clone() })
            }
            Err(e) => return ctx.violation_for("C12", "constructor", "new|rejected_valid_stack".to_string(), format!("LayeredFilesystem::new failed on existing directories: {}", e)),
        }
    }
    // C12: the codec configured for the game and the layer that takes the writes, as the handle reports them
    if prop == "C12" {
        for h in &handles {
            let be = h.cfg.game.big_endian();
            let (e, t, lang, wl) = ctx.mila("fs.configuration", || {
                (
                    matches!(h.fs.endian(), mila::Endian::Big),
                    matches!(h.fs.text_archive_format(), mila::TextArchiveFormat::ShiftJIS),
                    h.fs.language(),
                    h.fs.write_layer().root().to_string(),
                )
            })?;
            if e != be || t != be {
                return ctx.violation_for("C12", "codec_configuration", "configuration|codec".to_string(), format!("{:?}: endian() big = {}, text_archive_format() Shift-JIS = {}, the game's codec is {}", h.cfg.game, e, t, if be { "big-endian / Shift-JIS" } else { "little-endian / UTF-16" }));
            }
            if lang != h.cfg.lang.mila() {
                return ctx.violation_for("C12", "codec_configuration", "configuration|language".to_string(), format!("language() is {:?}, the handle was built for {:?}", lang, h.cfg.lang.mila()));
            }
            let top = layer_dir(&root, *h.cfg.stack.last().unwrap());
            let same = match (std::fs::canonicalize(&wl), std::fs::canonicalize(&top)) {
                (Ok(a), Ok(b)) => a == b,
                _ => false,
            };
            if !same {
                return ctx.violation_for("C12", "codec_configuration", "configuration|write_layer".to_string(), format!("write_layer() is rooted at {:?}, the highest-priority layer is {:?}", wl, top));
            }
        }
    }
    // C14: the handle's localizer is the game's, checked on a few paths up front
    if prop == "C14" {
        for h in &handles {
            for p in ["m/GameData.bin.lz", "Sub", "a/b/c/d.txt"] {
                check_localize(ctx, h.fs.localizer(), h.cfg.game, h.cfg.lang, p)?;
            }
        }
    }
    let mut w = World { root: root.clone(), m: FsModel::new(cfg.layers), handles, cfg: cfg.clone(), writes_ok: 0, reads_ok: 0, lists_ok: 0, faults: 0, tainted: Default::default() };
    let mut rng = Rng::sub(ctx.run_seed, "ops");
    let mut result = Ok(());
    loop {
        let step = ctx.trace_ops.len();
        let op: Op = match ctx.next_op(|_c| Some(gen_op(&mut rng, &w.m, &cfg, &prop, step)))? {
            Some(o) => o,
            None => break,
        };
        match exec(ctx, &mut w, &op) {
            Ok(()) => {}
            Err(Stop::Violation(v)) => {
                if v.property != prop {
                    // another property's statement governs this; its own check reports it
                    ctx.probe(&format!("foreign_violation_{}", v.property));
                    if let Ok(s) = snapshot(&w.root, w.cfg.layers) {
                        w.m.layers = s;
                    }
                    continue;
                }
                result = Err(Stop::Violation(v));
                break;
            }
            Err(e) => {
                result = Err(e);
                break;
            }
        }
        let mut hsh = crate::rng::H64::new();
        for l in &w.m.layers {
            hsh.u64(l.present as u64);
            for (k, n) in &l.nodes {
                hsh.str(k);
                match n {
                    Node::Dir => hsh.u64(1),
                    Node::File(b) => hsh.u64(b.len() as u64 + 2),
                }
            }
        }
        ctx.state(hsh.finish());
    }
    drop(w);
    let _ = std::fs::remove_dir_all(&root);
    ctx.nontrivial = ctx.nontrivial || true;
    result
}
