//! Scenario `tarc` (C07): text-archive sessions against an insertion-ordered
//! map model, with save/reload (through the simulated disk where the game's
//! configuration matches, in memory otherwise) as one more operation.

use crate::core::*;
use crate::model::bin_image;
use crate::rng::Rng;
use crate::scen::ScenDef;
use mila::{Endian, Game, Language, LayeredFilesystem, TextArchive, TextArchiveFormat};
use serde::{Deserialize, Serialize};
use serde_json::{json, Value};

pub static DEF: ScenDef = ScenDef {
    name: "tarc",
    props: &["C07"],
    budget,
    gen_cfg,
    run,
    shrink_cfg: crate::scen::no_shrink,
    shrink_op,
    worker_init: crate::scen::no_init,
    crash_owner: crate::scen::crash_is_ours,
};

fn budget(_prop: &str, tier: Tier) -> u64 {
    match tier {
        Tier::Quick => 600_000,
        Tier::Thorough => 15_000_000,
    }
}

#[derive(Serialize, Deserialize, Clone, Debug, PartialEq)]
#[serde(tag = "op")]
pub enum Op {
    Set { k: String, m: String },
    Delete { k: String },
    Has { k: String },
    Get { k: String },
    SetTitle { t: String },
    /// set(k, get(k)) must change nothing
    Idem { k: String },
    /// serialize and read the label order of the image with the reference reader
    Serialize,
    /// save and reload ("restart with only durable state surviving")
    Reload { disk: bool, compressed: bool },
}

const KEYS: &[&str] = &["", "K", "MID_A", "名前", "k2"];
const ATOMS: &[&str] = &["a", "n", "\\", "\n", "\\n", "é", "𝄞", " ", "ｱ"];
const SJIS_ATOMS: &[&str] = &["a", "n", "\\", "\n", "\\n", "あ", " ", "ｱ"];

fn gen_cfg(_prop: &str, tier: Tier, run_seed: u64) -> Value {
    let mut r = Rng::sub(run_seed, "cfg");
    let ops_hi = if tier == Tier::Thorough && r.chance(1, 4) { 200 } else { 60 };
    let swarm: Vec<u32> = (0..8).map(|_| *r.pick(&[0u32, 1, 1, 1, 2, 4])).collect();
    json!({ "unicode": r.chance(1, 2), "big": r.chance(1, 2), "max_ops": r.range(8, ops_hi), "swarm": swarm })
}

#[derive(Clone, Debug, PartialEq)]
struct TextModel {
    title: String,
    entries: Vec<(String, String)>,
    /// None = not determined by the statement at this point
    dirty: Option<bool>,
}

impl TextModel {
    fn pos(&self, k: &str) -> Option<usize> {
        self.entries.iter().position(|e| e.0 == k)
    }
    fn set(&mut self, k: &str, m: &str) {
        let stored = m.replace("\\n", "\n");
        match self.pos(k) {
            Some(i) => self.entries[i].1 = stored,
            None => self.entries.push((k.to_string(), stored)),
        }
        self.dirty = Some(true);
    }
    fn get(&self, k: &str) -> Option<String> {
        self.pos(k).map(|i| self.entries[i].1.replace('\n', "\\n"))
    }
    fn delete(&mut self, k: &str) -> bool {
        match self.pos(k) {
            Some(i) => {
                self.entries.remove(i);
                true
            }
            None => false,
        }
    }
    fn hash(&self) -> u64 {
        let mut h = crate::rng::H64::new();
        h.str(&self.title);
        for (k, v) in &self.entries {
            h.str(k);
            h.str(v);
        }
        h.u64(match self.dirty {
            None => 2,
            Some(b) => b as u64,
        });
        h.finish()
    }
}

fn gen_msg(r: &mut Rng, unicode: bool) -> String {
    let atoms = if unicode { ATOMS } else { SJIS_ATOMS };
    let n = r.below(7);
    let mut s = String::new();
    for _ in 0..n {
        s.push_str(atoms[r.below(atoms.len())]);
    }
    s
}

fn gen_op(r: &mut Rng, m: &TextModel, unicode: bool, swarm: &[u32]) -> Op {
    let k = if !m.entries.is_empty() && r.chance(1, 2) {
        m.entries[r.below(m.entries.len())].0.clone()
    } else {
        r.pick(KEYS).to_string()
    };
    let mut wts = [34u32, 20, 6, 10, 3, 10, 7, 10];
    for (i, f) in swarm.iter().enumerate().take(8) {
        wts[i] *= f;
    }
    wts[0] = wts[0].max(10);
    wts[1] = wts[1].max(5);
    match r.weighted(&wts) {
        0 => Op::Set { k, m: gen_msg(r, unicode) },
        1 => Op::Delete { k },
        2 => Op::Has { k },
        3 => Op::Get { k },
        4 => Op::SetTitle { t: r.pick(&["", "Title", "題"]).to_string() },
        5 => Op::Idem { k },
        6 => Op::Serialize,
        _ => Op::Reload { disk: r.chance(1, 2), compressed: r.chance(1, 2) },
    }
}

fn observe(a: &TextArchive) -> (String, Vec<(String, String)>, bool) {
    (
        a.get_title().to_string(),
        a.get_entries().iter().map(|(k, v)| (k.clone(), v.clone())).collect(),
        a.is_dirty(),
    )
}

fn check_state(ctx: &mut RunCtx, a: &TextArchive, m: &mut TextModel, api: &str) -> Step<()> {
    let (title, entries, dirty) = ctx.mila("observe", || observe(a))?;
    if title != m.title {
        return ctx.violation("state_after_op", format!("{}|title", api), format!("after {}: title {:?}, model {:?}", api, title, m.title));
    }
    if entries != m.entries {
        let what = {
            let ks: Vec<&String> = entries.iter().map(|e| &e.0).collect();
            let mk: Vec<&String> = m.entries.iter().map(|e| &e.0).collect();
            if ks == mk {
                "values"
            } else {
                let mut a = ks.clone();
                let mut b = mk.clone();
                a.sort();
                b.sort();
                if a == b {
                    "order"
                } else {
                    "keys"
                }
            }
        };
        return ctx.violation(
            "state_after_op",
            format!("{}|{}", api, what),
            format!("after {}: entries {:?}, model {:?}", api, entries, m.entries),
        );
    }
    match m.dirty {
        Some(d) if d != dirty => {
            return ctx.violation("dirty_flag", format!("{}|dirty", api), format!("after {}: is_dirty() = {}, model {}", api, dirty, d));
        }
        None => m.dirty = Some(dirty),
        _ => {}
    }
    Ok(())
}

fn representable(m: &TextModel, unicode: bool) -> bool {
    let ok = |s: &str| bin_image::sjis_lossless(s);
    if !ok(&m.title) {
        return false;
    }
    m.entries.iter().all(|(k, v)| ok(k) && (unicode || ok(v)) && !v.contains('\0'))
}

fn run(cfg: &Value, ctx: &mut RunCtx) -> Step<()> {
    let unicode = cfg["unicode"].as_bool().unwrap_or(true);
    let big = cfg["big"].as_bool().unwrap_or(false);
    ctx.max_ops = cfg["max_ops"].as_u64().unwrap_or(30) as usize;
    let swarm: Vec<u32> = cfg["swarm"].as_array().map(|a| a.iter().map(|x| x.as_u64().unwrap_or(1) as u32).collect()).unwrap_or_else(|| vec![1; 8]);
    let format = if unicode { TextArchiveFormat::Unicode } else { TextArchiveFormat::ShiftJIS };
    let endian = if big { Endian::Big } else { Endian::Little };
    let mut a = ctx.mila("TextArchive::new", || TextArchive::new(format, endian))?;
    let mut m = TextModel { title: String::new(), entries: Vec::new(), dirty: Some(false) };
    check_state(ctx, &a, &mut m, "new")?;
    let mut rng = Rng::sub(ctx.run_seed, "ops");
    let mut sets = 0;
    let mut deletes = 0;
    let mut reloads = 0;
    loop {
        let op: Op = match ctx.next_op(|_c| Some(gen_op(&mut rng, &m, unicode, &swarm)))? {
            Some(o) => o,
            None => break,
        };
        match &op {
            Op::Set { k, m: msg } => {
                if m.pos(k).is_some() {
                    ctx.probe("set_existing_key");
                } else if deletes > 0 {
                    ctx.probe("set_new_key_after_delete");
                }
                ctx.mila("set_message", || a.set_message(k, msg))?;
                m.set(k, msg);
                sets += 1;
                ctx.outcome("set_message", "ok", "");
                check_state(ctx, &a, &mut m, "set_message")?;
            }
            Op::Delete { k } => {
                ctx.mila("delete_message", || a.delete_message(k))?;
                let pos = m.pos(k);
                let n = m.entries.len();
                if m.delete(k) {
                    deletes += 1;
                    if let Some(p) = pos {
                        if p + 1 < n {
                            ctx.probe("delete_not_last_key");
                        }
                    }
                }
                // the statement does not say whether delete raises the dirty flag; once raised by a
                // set it stays raised ("set after any set") until the archive is parsed again
                if m.dirty != Some(true) {
                    m.dirty = None;
                }
                ctx.outcome("delete_message", if pos.is_some() { "hit" } else { "miss" }, "");
                check_state(ctx, &a, &mut m, "delete_message")?;
            }
            Op::Has { k } => {
                let got = ctx.mila("has_message", || a.has_message(k))?;
                let want = m.pos(k).is_some();
                ctx.outcome("has_message", if got { "true" } else { "false" }, "");
                if got != want {
                    return ctx.violation("return_value", "has_message|wrong_value", format!("has_message({:?}) = {}, model {}", k, got, want));
                }
                check_state(ctx, &a, &mut m, "has_message")?;
            }
            Op::Get { k } => {
                let got = ctx.mila("get_message", || a.get_message(k))?;
                let want = m.get(k);
                ctx.outcome("get_message", if got.is_some() { "some" } else { "none" }, &format!("{:?}", got));
                if got != want {
                    return ctx.violation("return_value", "get_message|wrong_value", format!("get_message({:?}) = {:?}, model {:?}", k, got, want));
                }
                if let Some(g) = &got {
                    if g.contains('\n') {
                        return ctx.violation("return_value", "get_message|raw_newline", format!("get_message({:?}) returned a raw newline: {:?}", k, g));
                    }
                }
                check_state(ctx, &a, &mut m, "get_message")?;
            }
            Op::SetTitle { t } => {
                ctx.mila("set_title", || a.set_title(t.clone()))?;
                m.title = t.clone();
                if m.dirty != Some(true) {
                    m.dirty = None;
                }
                ctx.outcome("set_title", "ok", "");
                check_state(ctx, &a, &mut m, "set_title")?;
            }
            Op::Idem { k } => {
                let got = ctx.mila("get_message", || a.get_message(k))?;
                if got != m.get(k) {
                    return ctx.violation("return_value", "get_message|wrong_value", format!("get_message({:?}) = {:?}, model {:?}", k, got, m.get(k)));
                }
                if let Some(msg) = got {
                    let literal = m.pos(k).map(|i| m.entries[i].1.contains("\\n")).unwrap_or(false);
                    ctx.mila("set_message", || a.set_message(k, &msg))?;
                    if literal {
                        // a stored literal backslash-n (only possible from a parsed file) is outside the statement
                        m.set(k, &msg);
                    } else {
                        // storing a looked-up message back changes nothing
                        m.dirty = Some(true);
                    }
                    ctx.probe("idempotence_probe_on_existing_key");
                    ctx.outcome("idem", "some", "");
                    check_state(ctx, &a, &mut m, "set_message(get_message)")?;
                } else {
                    ctx.outcome("idem", "none", "");
                }
            }
            Op::Serialize => {
                let res = ctx.mila("serialize", || a.serialize())?;
                match res {
                    Err(e) => {
                        ctx.outcome("serialize", "err", &e.to_string());
                        // whether every representable archive serializes is C06 (not claimed;
                        // e.g. the empty legacy archive does not): recorded, not judged
                        if representable(&m, unicode) {
                            ctx.probe("serialize_failed_on_representable_content");
                        }
                    }
                    Ok(bytes) => {
                        ctx.outcome("serialize", "ok", &format!("{} bytes", bytes.len()));
                        if representable(&m, unicode) {
                            match bin_image::parse_image(&bytes, big) {
                                Err(e) => return ctx.violation("serialized_order", "serialize|unreadable", format!("image unreadable: {}", e)),
                                Ok(img) => {
                                    let mut labs: Vec<(u32, String)> = Vec::new();
                                    for (addr, off) in &img.label_table {
                                        match bin_image::cstr_at(&img.text_pool, *off as usize) {
                                            Some(raw) => labs.push((*addr, bin_image::sjis_decode(raw))),
                                            None => return ctx.violation("serialized_order", "serialize|unreadable", "label name outside the text pool".to_string()),
                                        }
                                    }
                                    labs.sort_by_key(|l| l.0);
                                    let got: Vec<&String> = labs.iter().map(|l| &l.1).collect();
                                    let want: Vec<&String> = m.entries.iter().map(|e| &e.0).collect();
                                    if got != want {
                                        return ctx.violation(
                                            "serialized_order",
                                            "serialize|order",
                                            format!("labels of the serialized image by address {:?}, model key order {:?}", got, want),
                                        );
                                    }
                                    if want.len() >= 3 {
                                        ctx.probe("serialized_order_checked_3plus_keys");
                                    }
                                }
                            }
                        }
                    }
                }
                check_state(ctx, &a, &mut m, "serialize")?;
            }
            Op::Reload { disk, compressed } => {
                let res = ctx.mila("serialize", || a.serialize())?;
                let bytes = match res {
                    Ok(b) => b,
                    Err(_) => {
                        ctx.outcome("reload", "unserializable", "");
                        continue;
                    }
                };
                // the simulated disk is used when a game has this exact configuration
                let game = match (unicode, big) {
                    (false, true) => Some(Game::FE10),
                    (true, false) => Some(Game::FE14),
                    _ => None,
                };
                let parsed: Result<TextArchive, String> = if let (true, Some(game)) = (*disk, game) {
                    let dir = ctx.scratch.join("tarc");
                    let _ = std::fs::remove_dir_all(&dir);
                    if std::fs::create_dir_all(&dir).is_err() {
                        return harness("cannot create scratch dir");
                    }
                    let name = match (compressed, game) {
                        (true, Game::FE10) => "t.bin.cmp",
                        (true, _) => "t.bin.lz",
                        _ => "t.bin",
                    };
                    let d = dir.to_string_lossy().to_string();
                    let r = ctx.mila("fs.write_text_archive+read_text_archive", || {
                        let fs = LayeredFilesystem::new(vec![d.clone()], Language::EnglishNA, game).map_err(|e| e.to_string())?;
                        fs.write_text_archive(name, &a, false).map_err(|e| e.to_string())?;
                        fs.read_text_archive(name, false).map_err(|e| e.to_string())
                    })?;
                    let _ = std::fs::remove_dir_all(&dir);
                    ctx.probe("reload_through_simulated_disk");
                    r
                } else {
                    ctx.mila("TextArchive::from_bytes", || TextArchive::from_bytes(&bytes, format, endian).map_err(|e| e.to_string()))?
                };
                match parsed {
                    Err(e) => {
                        ctx.outcome("reload", "err", &e);
                        // whether a save survives a reload is C06 (not claimed): carry on with the old archive
                    }
                    Ok(p) => {
                        ctx.fault("save_reload");
                        reloads += 1;
                        let (title, entries, dirty) = ctx.mila("observe", || observe(&p))?;
                        ctx.outcome("reload", "ok", &format!("{} entries", entries.len()));
                        if dirty {
                            return ctx.violation("dirty_flag", "reload|dirty", "a parsed archive reports is_dirty() = true".to_string());
                        }
                        if entries != m.entries || title != m.title {
                            ctx.probe("reload_changed_content_resynchronised");
                        }
                        // re-synchronise the model from what was read (content preservation is C06)
                        m.title = title;
                        m.entries = entries;
                        m.dirty = Some(false);
                        a = p;
                    }
                }
                check_state(ctx, &a, &mut m, "reload")?;
            }
        }
        ctx.state(m.hash());
    }
    let _ = reloads;
    ctx.nontrivial = sets >= 3 && deletes >= 1;
    Ok(())
}

fn shrink_op(op: &Value) -> Vec<Value> {
    let mut out = Vec::new();
    if let Ok(Op::Set { k, m }) = serde_json::from_value::<Op>(op.clone()) {
        if !m.is_empty() {
            out.push(serde_json::to_value(Op::Set { k: k.clone(), m: String::new() }).unwrap());
            let mut cs: Vec<char> = m.chars().collect();
            cs.pop();
            out.push(serde_json::to_value(Op::Set { k, m: cs.into_iter().collect() }).unwrap());
        }
    }
    out
}
