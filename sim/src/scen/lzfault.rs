//! Scenario `lzfault` (C11): compressed files at rest, written by a conforming
//! peer encoder, then hit by storage faults, read back through the codec
//! entry points and through the layered filesystem.
//!
//! Zero-fault configuration: token sequences with every legal length and
//! displacement form, encoded as LZ10, bare LZ11, 0x13-wrapped LZ11 and the
//! stored form. Fault enumeration: every truncation point, every single bit
//! flip (streams <= 256 bytes), type-byte and length-field overwrites, sector
//! faults, splices, appended garbage, tiny files.

use crate::core::*;
use crate::model::lz::{self, Token, Verdict};
use crate::rng::Rng;
use crate::scen::ScenDef;
use mila::{CompressionFormat, Game, LZ10CompressionFormat, LZ13CompressionFormat, Language, LayeredFilesystem};
use serde::{Deserialize, Serialize};
use serde_json::{json, Value};

pub static DEF: ScenDef = ScenDef {
    name: "lzfault",
    props: &["C11"],
    budget,
    gen_cfg,
    run,
    shrink_cfg: crate::scen::no_shrink,
    shrink_op,
    worker_init: crate::scen::no_init,
    crash_owner: crate::scen::crash_is_ours,
};

fn budget(_prop: &str, tier: Tier) -> u64 {
    match tier {
        Tier::Quick => 3_000,
        Tier::Thorough => 80_000,
    }
}

#[derive(Serialize, Deserialize, Clone, Debug, PartialEq)]
#[serde(tag = "op")]
pub enum Op {
    /// a peer writes a stream: becomes the current file
    Base { form: String, #[serde(with = "hexser")] bytes: Vec<u8> },
    /// read the intact file through every entry point
    ZeroFault,
    /// every truncation point (torn write / short file)
    TruncAll,
    /// every single bit flip (sampled above 256 bytes)
    FlipAll { sample_seed: u64 },
    /// type byte / length field overwrites
    HeaderFaults,
    /// 16-byte sector zeroed (kind 0), filled with garbage (1), replaced by a sector of the previous file (2)
    Sector { kind: u8, pos: u64, fill: u64 },
    /// prefix of the current file + suffix of the previous one
    Splice { cut_a: u64, cut_b: u64 },
    Append { #[serde(with = "hexser")] tail: Vec<u8> },
    /// the empty file and all files of 1-3 bytes built from interesting bytes
    Tiny,
    /// a stream that is well-formed up to a reference reaching exactly one byte before the
    /// start of the output, after n produced bytes (n up to the 4096-byte window edge)
    BackrefEdge { lz11: bool, wrapped: bool, seed: u64 },
    /// one explicit case (what a violation inside an enumerating operation is reduced to)
    Raw { entry: String, #[serde(with = "hexser")] bytes: Vec<u8> },
}

fn gen_cfg(_prop: &str, _tier: Tier, run_seed: u64) -> Value {
    let mut r = Rng::sub(run_seed, "cfg");
    // big: the longest LZ11 length form; huge: a payload of 16 MiB and more (extended length header)
    json!({ "disk": r.chance(1, 2), "big": r.chance(1, 12), "huge": r.chance(1, 150) })
}

const ENTRIES: [&str; 4] = ["lz10", "lz13", "cf10", "cf13"];

/// token sequence drawn against the reference expander
fn gen_tokens(r: &mut Rng, lz11: bool, target: usize) -> Vec<Token> {
    let mut tokens = Vec::new();
    let mut n = 0usize;
    let na = r.range(1, 4);
    let alphabet = r.bytes(na);
    while n < target {
        let can_ref = n >= 1;
        if !can_ref || r.chance(2, 5) {
            let b = if r.chance(3, 4) { alphabet[r.below(alphabet.len())] } else { r.next() as u8 };
            tokens.push(Token::Lit(b));
            n += 1;
        } else {
            let disp = match r.weighted(&[25, 15, 25, 15, 20]) {
                0 => 1,
                1 => 2.min(n),
                2 => r.range(1, n.min(32)),
                3 => n.min(4096),
                _ => r.range(1, n.min(4096)),
            };
            let len = if !lz11 {
                match r.weighted(&[30, 20, 50]) {
                    0 => 3,
                    1 => 18,
                    _ => r.range(3, 18),
                }
            } else {
                match r.weighted(&[30, 10, 10, 25, 10, 10, 5]) {
                    0 => r.range(3, 16),
                    1 => 16,
                    2 => 17,
                    3 => r.range(17, 272),
                    4 => 272,
                    5 => 273,
                    _ => r.range(273, 2000),
                }
            };
            tokens.push(Token::Ref(len, disp));
            n += len;
        }
    }
    tokens
}

fn gen_base(r: &mut Rng, big: bool) -> (String, Vec<u8>) {
    let form = *r.pick(&["lz10", "lz11", "lz13", "lz13", "stored"]);
    let target = match r.weighted(&[5, 30, 45, 20]) {
        0 => 0,
        1 => r.range(1, 12),
        2 => r.range(8, 120),
        _ => r.range(100, 600),
    };
    let target = if big && form != "stored" { r.range(3000, 70000) } else { target };
    let bytes = match form {
        "lz10" => lz::encode_tokens(&gen_tokens(r, false, target), false, r.next() as u8),
        "lz11" | "lz13" => {
            let mut t = gen_tokens(r, true, target);
            if big {
                // the longest length form: far beyond what mila's own compressor emits
                let n: usize = lz::expand_tokens(&t).len();
                if n >= 1 {
                    t.push(Token::Ref(r.range(4369, 65808), r.range(1, n.min(4096))));
                }
            }
            if t.is_empty() {
                // an empty payload in LZ11 uses the extended zero length header
                let inner = vec![0x11, 0, 0, 0, 0, 0, 0, 0];
                if form == "lz13" {
                    lz::wrap_lz13(&inner, 8)
                } else {
                    inner
                }
            } else {
                let inner = lz::encode_tokens(&t, true, r.next() as u8);
                if form == "lz13" {
                    lz::wrap_lz13(&inner, r.next() as u32 & 0xFFFFFF)
                } else {
                    inner
                }
            }
        }
        _ => {
            let n = target.min(200);
            lz::stored_form(&r.bytes(n))
        }
    };
    (form.to_string(), bytes)
}

struct World {
    cur: Vec<u8>,
    prev: Vec<u8>,
    fs10: Option<(LayeredFilesystem, std::path::PathBuf)>,
    fs13: Option<(LayeredFilesystem, std::path::PathBuf)>,
    disk_tick: u64,
}

fn verdict_for(entry: &str, bytes: &[u8]) -> Verdict {
    match entry {
        "lz10" | "cf10" | "fs10" => lz::classify_lz10_entry(bytes),
        _ => lz::classify_lz13_entry(bytes),
    }
}

/// one (file content, entry point) case against the three-way verdict
fn case(ctx: &mut RunCtx, w: &mut World, entry: &str, bytes: &[u8], faulted: bool) -> Step<()> {
    let v = verdict_for(entry, bytes);
    let api = match entry {
        "lz10" => "LZ10CompressionFormat::decompress",
        "lz13" => "LZ13CompressionFormat::decompress",
        "cf10" => "CompressionFormat::LZ10.decompress",
        "cf13" => "CompressionFormat::LZ13.decompress",
        "fs10" => "fs.read(.cmp)",
        _ => "fs.read(.lz)",
    };
    let got: Result<Result<Vec<u8>, String>, PanicInfo> = match entry {
        "lz10" => guarded(|| LZ10CompressionFormat {}.decompress(bytes).map_err(|e| e.to_string())),
        "lz13" => guarded(|| LZ13CompressionFormat {}.decompress(bytes).map_err(|e| e.to_string())),
        "cf10" => guarded(|| CompressionFormat::LZ10(LZ10CompressionFormat {}).decompress(bytes).map_err(|e| e.to_string())),
        "cf13" => guarded(|| CompressionFormat::LZ13(LZ13CompressionFormat {}).decompress(bytes).map_err(|e| e.to_string())),
        _ => {
            let slot = if entry == "fs10" { &w.fs10 } else { &w.fs13 };
            let (fs, dir) = match slot {
                Some(x) => x,
                None => return Ok(()),
            };
            let name = if entry == "fs10" { "f.bin.cmp" } else { "f.bin.lz" };
            std::fs::write(dir.join(name), bytes).map_err(|e| Stop::Harness(format!("cannot place file: {}", e)))?;
            guarded(|| fs.read(name, false).map_err(|e| e.to_string()))
        }
    };
    ctx.probe("cases_evaluated");
    if faulted {
        ctx.probe(match &v {
            Verdict::Conforming(_) => "faulted_file_still_conforming",
            Verdict::Malformed(_) => "faulted_file_malformed",
            Verdict::Other(_) => "faulted_file_unspecified",
        });
    }
    let mut h = crate::rng::H64::new();
    h.str(entry);
    h.bytes(bytes);
    ctx.state(h.finish());
    let refine = |ctx: &mut RunCtx| {
        let raw = serde_json::to_value(Op::Raw { entry: entry.to_string(), bytes: bytes.to_vec() }).unwrap();
        if let Some(last) = ctx.trace_ops.last_mut() {
            *last = raw;
        }
    };
    let short = hex(&bytes[..bytes.len().min(48)]);
    match got {
        Err(p) => {
            refine(ctx);
            let why = match &v {
                Verdict::Malformed(m) | Verdict::Other(m) => *m,
                Verdict::Conforming(_) => "conforming stream",
            };
            ctx.violation(
                "no_panic",
                format!("panic|{}|{}|{}|{}", if entry.starts_with("fs") { "fs.read" } else { entry }, p.file.rsplit('/').next().unwrap_or(""), strip_digits(&p.message), v.class()),
                format!("{} panicked at {}:{}: {} on a {}-byte input ({}: {}) {}", api, p.file, p.line, p.message, bytes.len(), v.class(), why, short),
            )
        }
        Ok(res) => match (&v, &res) {
            (Verdict::Conforming(d), Ok(o)) => {
                if o != d {
                    refine(ctx);
                    let i = (0..o.len().min(d.len())).find(|i| o[*i] != d[*i]).unwrap_or(o.len().min(d.len()));
                    return ctx.violation(
                        "decodes_exactly",
                        format!("{}|wrong_data", entry),
                        format!("{} returned {} bytes, the reference expander {} bytes; first difference at {} (input {} bytes {})", api, o.len(), d.len(), i, bytes.len(), short),
                    );
                }
                Ok(())
            }
            (Verdict::Conforming(d), Err(e)) => {
                refine(ctx);
                ctx.violation(
                    "decodes_exactly",
                    format!("{}|rejected_conforming_stream", entry),
                    format!("{} failed ({}) on a conforming stream of {} bytes encoding {} bytes: {}", api, e, bytes.len(), d.len(), short),
                )
            }
            (Verdict::Malformed(m), Ok(o)) => {
                refine(ctx);
                ctx.violation(
                    "errors_on_malformed",
                    format!("{}|accepted_malformed|{}", entry, m),
                    format!("{} returned Ok({} bytes) for malformed input ({}): {} bytes {}", api, o.len(), m, bytes.len(), short),
                )
            }
            _ => Ok(()),
        },
    }
}

fn all_entries(ctx: &mut RunCtx, w: &mut World, bytes: &[u8], faulted: bool, disk_every: u64) -> Step<()> {
    for e in ENTRIES {
        case(ctx, w, e, bytes, faulted)?;
    }
    w.disk_tick += 1;
    if disk_every > 0 && w.disk_tick % disk_every == 0 {
        case(ctx, w, "fs10", bytes, faulted)?;
        case(ctx, w, "fs13", bytes, faulted)?;
    }
    Ok(())
}

fn exec(ctx: &mut RunCtx, w: &mut World, op: &Op) -> Step<()> {
    match op {
        Op::Base { form, bytes } => {
            w.prev = std::mem::replace(&mut w.cur, bytes.clone());
            ctx.outcome("base", form, &format!("{} bytes", bytes.len()));
            // self-check of the peer encoder: its output must be conforming for its own entry
            let v = match form.as_str() {
                "lz10" | "lz11" => lz::classify_stream(bytes),
                _ => lz::classify_lz13_entry(bytes),
            };
            if !ctx.is_replay() && !matches!(v, Verdict::Conforming(_)) {
                return harness(format!("peer encoder produced a non-conforming {} stream: {:?}", form, v));
            }
            if let Verdict::Conforming(d) = &v {
                if d.len() > 65000 {
                    ctx.probe("lz11_longest_length_form");
                }
            }
            Ok(())
        }
        Op::ZeroFault => {
            let b = w.cur.clone();
            all_entries(ctx, w, &b, false, 1)?;
            ctx.outcome("zero_fault", "ok", "");
            Ok(())
        }
        Op::TruncAll => {
            let b = w.cur.clone();
            let step = if b.len() > 2000 { b.len() / 500 } else { 1 };
            let mut k = 0;
            while k < b.len() {
                all_entries(ctx, w, &b[..k], true, 8)?;
                k += step;
            }
            ctx.fault("truncation");
            ctx.outcome("trunc_all", "ok", &format!("{}", b.len()));
            Ok(())
        }
        Op::FlipAll { sample_seed } => {
            let b = w.cur.clone();
            let nbits = b.len() * 8;
            let mut r = Rng::new(*sample_seed);
            let all = b.len() <= if ctx.tier == Tier::Thorough { 512 } else { 256 };
            let count = if all { nbits } else { 2048 };
            for i in 0..count {
                let bit = if all { i } else { r.below(nbits) };
                let mut c = b.clone();
                c[bit / 8] ^= 1 << (bit % 8);
                all_entries(ctx, w, &c, true, 16)?;
            }
            if count > 0 {
                ctx.fault("bit_flip");
            }
            ctx.outcome("flip_all", if all { "all" } else { "sampled" }, "");
            Ok(())
        }
        Op::HeaderFaults => {
            let b = w.cur.clone();
            if b.len() < 4 {
                return Ok(());
            }
            for t in [0x00u8, 0x10, 0x11, 0x13, 0x12, 0x01, 0x40, 0xFF] {
                let mut c = b.clone();
                c[0] = t;
                all_entries(ctx, w, &c, true, 2)?;
                if b.len() >= 8 {
                    let mut c = b.clone();
                    c[4] = t;
                    all_entries(ctx, w, &c, true, 2)?;
                }
            }
            let declared = b[1] as u32 | (b[2] as u32) << 8 | (b[3] as u32) << 16;
            for off in [1usize, 5] {
                if b.len() < off + 3 {
                    continue;
                }
                for v in [declared.wrapping_add(1), declared.wrapping_sub(1), 0, 1, 0xFFFFFF, declared.wrapping_mul(2), 0x10000] {
                    let mut c = b.clone();
                    c[off] = v as u8;
                    c[off + 1] = (v >> 8) as u8;
                    c[off + 2] = (v >> 16) as u8;
                    all_entries(ctx, w, &c, true, 2)?;
                }
            }
            ctx.fault("header_overwrite");
            ctx.outcome("header_faults", "ok", "");
            Ok(())
        }
        Op::Sector { kind, pos, fill } => {
            let mut c = w.cur.clone();
            if c.is_empty() {
                return Ok(());
            }
            let s = ((*pos as usize) % c.len()) & !15;
            let e = (s + 16).min(c.len());
            let mut r = Rng::new(*fill);
            for i in s..e {
                c[i] = match kind {
                    0 => 0,
                    1 => r.next() as u8,
                    _ => *w.prev.get(i).unwrap_or(&0xEE),
                };
            }
            all_entries(ctx, w, &c, true, 1)?;
            ctx.fault(match kind {
                0 => "sector_zero",
                1 => "sector_garbage",
                _ => "sector_misdirect",
            });
            ctx.outcome("sector", "ok", "");
            Ok(())
        }
        Op::Splice { cut_a, cut_b } => {
            let a = &w.cur;
            let b = &w.prev;
            let ca = if a.is_empty() { 0 } else { (*cut_a as usize) % (a.len() + 1) };
            let cb = if b.is_empty() { 0 } else { (*cut_b as usize) % (b.len() + 1) };
            let mut c = a[..ca].to_vec();
            c.extend_from_slice(&b[cb..]);
            all_entries(ctx, w, &c, true, 1)?;
            ctx.fault("splice");
            ctx.outcome("splice", "ok", "");
            Ok(())
        }
        Op::Append { tail } => {
            let mut c = w.cur.clone();
            c.extend_from_slice(tail);
            all_entries(ctx, w, &c, true, 1)?;
            ctx.fault("append_garbage");
            ctx.outcome("append", "ok", "");
            Ok(())
        }
        Op::Tiny => {
            let interesting = [0x00u8, 0x10, 0x11, 0x13, 0x01, 0xFF];
            all_entries(ctx, w, &[], true, 1)?;
            for a in interesting {
                all_entries(ctx, w, &[a], true, 4)?;
                for b in [0x00u8, 0x04, 0xFF] {
                    all_entries(ctx, w, &[a, b], true, 4)?;
                    all_entries(ctx, w, &[a, b, 0x00], true, 4)?;
                    // a bare header, and a wrapper with 1-3 bytes behind it
                    all_entries(ctx, w, &[a, b, 0x00, 0x00], true, 4)?;
                    all_entries(ctx, w, &[a, b, 0x00, 0x00, 0x11], true, 4)?;
                    all_entries(ctx, w, &[a, b, 0x00, 0x00, 0x11, b, 0x00], true, 4)?;
                }
            }
            ctx.fault("tiny_file");
            ctx.outcome("tiny", "ok", "");
            Ok(())
        }
        Op::BackrefEdge { lz11, wrapped, seed } => {
            let mut r = Rng::new(*seed);
            for n in [1usize, 2, 3, 7, 8, 9, 17, 18, 255, 256, 1000, 4093, 4094, 4095] {
                // n literals, then a copy whose displacement is n + 1 (only n bytes exist)
                let mut t: Vec<Token> = (0..n).map(|_| Token::Lit(r.next() as u8)).collect();
                t.push(Token::Ref(3, n + 1));
                t.push(Token::Lit(0x55));
                let inner = lz::encode_tokens(&t, *lz11, 0);
                let bytes = if *wrapped { lz::wrap_lz13(&inner, 1) } else { inner };
                all_entries(ctx, w, &bytes, true, 4)?;
            }
            ctx.fault("backref_one_before_start");
            ctx.outcome("backref_edge", "ok", "");
            Ok(())
        }
        Op::Raw { entry, bytes } => {
            let b = bytes.clone();
            case(ctx, w, entry, &b, true)?;
            ctx.outcome("raw", "ok", "");
            Ok(())
        }
    }
}

fn run(cfg: &Value, ctx: &mut RunCtx) -> Step<()> {
    let disk = cfg["disk"].as_bool().unwrap_or(false);
    let big = cfg["big"].as_bool().unwrap_or(false);
    ctx.max_ops = 64;
    let mut w = World { cur: Vec::new(), prev: Vec::new(), fs10: None, fs13: None, disk_tick: 0 };
    let root = ctx.scratch.join("lz");
    if disk || ctx.is_replay() {
        let _ = std::fs::remove_dir_all(&root);
        std::fs::create_dir_all(&root).map_err(|e| Stop::Harness(format!("scratch: {}", e)))?;
        let d = root.to_string_lossy().to_string();
        let a = guarded(|| LayeredFilesystem::new(vec![d.clone()], Language::EnglishNA, Game::FE10));
        let b = guarded(|| LayeredFilesystem::new(vec![d.clone()], Language::EnglishNA, Game::FE14));
        if let (Ok(Ok(a)), Ok(Ok(b))) = (a, b) {
            w.fs10 = Some((a, root.clone()));
            w.fs13 = Some((b, root.clone()));
        }
    }
    // plan: a few peer-written files, each read intact and then under every fault kind
    let mut planned: Vec<Op> = Vec::new();
    if !ctx.is_replay() && cfg["huge"].as_bool().unwrap_or(false) {
        // a peer-written stream of >= 16 MiB: a few literals, then maximal copies
        let mut r = Rng::sub(ctx.run_seed, "ops");
        let mut t: Vec<Token> = (0..r.range(1, 40)).map(|_| Token::Lit(r.next() as u8)).collect();
        let mut n = t.len();
        let target = (1usize << 24) + r.below(200_000);
        while n < target {
            // (not written as `if d >= 65808 { 65808 } else { d.max(3) }`: rustc 1.95 / LLVM 22 in this
            // sandbox miscompiles that clamp at every opt-level >= 1 and returns d)
            let len = (target - n).min(65808).max(3);
            t.push(Token::Ref(len, r.range(1, n.min(4096))));
            n += len;
        }
        let inner = lz::encode_tokens(&t, true, r.next() as u8);
        let (form, bytes) = if r.chance(1, 2) { ("lz13".to_string(), lz::wrap_lz13(&inner, 9)) } else { ("lz11".to_string(), inner) };
        planned.push(Op::Base { form, bytes });
        planned.push(Op::ZeroFault);
        // a torn tail and a garbage tail of the big file (full enumeration would copy terabytes)
        planned.push(Op::Append { tail: vec![0x5A; 3] });
        planned.reverse();
        ctx.probe("lz11_extended_header_16mib_payload");
    } else if !ctx.is_replay() {
        let mut r = Rng::sub(ctx.run_seed, "ops");
        if r.chance(1, 8) {
            planned.push(Op::Tiny);
        }
        if r.chance(1, 6) {
            planned.push(Op::BackrefEdge { lz11: r.chance(1, 2), wrapped: r.chance(1, 2), seed: r.next() });
        }
        let files = if big { 1 } else { r.range(1, 3) };
        for _ in 0..files {
            let (form, bytes) = gen_base(&mut r, big);
            planned.push(Op::Base { form, bytes });
            planned.push(Op::ZeroFault);
            planned.push(Op::TruncAll);
            if !big || r.chance(1, 2) {
                planned.push(Op::FlipAll { sample_seed: r.next() });
            }
            planned.push(Op::HeaderFaults);
            for _ in 0..r.range(1, 4) {
                planned.push(Op::Sector { kind: r.below(3) as u8, pos: r.next(), fill: r.next() });
            }
            for _ in 0..r.range(0, 3) {
                planned.push(Op::Splice { cut_a: r.next(), cut_b: r.next() });
            }
            let n = r.range(1, 8);
            planned.push(Op::Append { tail: r.bytes(n) });
        }
        planned.reverse();
    }
    let mut result = Ok(());
    loop {
        let op: Op = match ctx.next_op(|_c| planned.pop())? {
            Some(o) => o,
            None => break,
        };
        if let Err(e) = exec(ctx, &mut w, &op) {
            result = Err(e);
            break;
        }
    }
    drop(w);
    let _ = std::fs::remove_dir_all(&root);
    ctx.nontrivial = true;
    result
}

fn shrink_op(op: &Value) -> Vec<Value> {
    let mut out = Vec::new();
    if let Ok(Op::Raw { entry, bytes }) = serde_json::from_value::<Op>(op.clone()) {
        // shorter inputs of the same entry point
        if bytes.len() > 1 {
            out.push(serde_json::to_value(Op::Raw { entry: entry.clone(), bytes: bytes[..bytes.len() - 1].to_vec() }).unwrap());
            out.push(serde_json::to_value(Op::Raw { entry: entry.clone(), bytes: bytes[..bytes.len() / 2].to_vec() }).unwrap());
        }
        // the direct entry point instead of the filesystem
        if entry == "fs10" {
            out.push(serde_json::to_value(Op::Raw { entry: "lz10".into(), bytes: bytes.clone() }).unwrap());
        }
        if entry == "fs13" {
            out.push(serde_json::to_value(Op::Raw { entry: "lz13".into(), bytes }).unwrap());
        }
    }
    out
}
