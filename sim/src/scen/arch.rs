//! Scenario `arch` (C03, C04): sessions on one bin archive.
//!
//! Three clients share one `BinArchive`: the positional client, a stream
//! reader and a stream writer whose cursors live in the simulator and are
//! re-attached for each access (what the borrow rules allow a real caller).
//! Every operation — including the rejected, invalid ones, which are the
//! injected faults of this scenario — is executed against mila and against
//! `ArchModel`; return values and the full observable state are compared
//! after every step.

use crate::core::*;
use crate::model::arch_model::{ArchModel, ErrKind, MRes};
use crate::model::bin_image;
use crate::rng::Rng;
use crate::scen::ScenDef;
use mila::{ArchiveError, BinArchive, BinArchiveReader, BinArchiveWriter, EncodedStringReader, Endian};
use serde::{Deserialize, Serialize};
use serde_json::{json, Value};

pub static DEF: ScenDef = ScenDef {
    name: "arch",
    props: &["C03", "C04"],
    budget,
    gen_cfg,
    run,
    shrink_cfg,
    shrink_op,
    worker_init: crate::scen::no_init,
    crash_owner: crate::scen::crash_is_ours,
};

fn budget(_prop: &str, tier: Tier) -> u64 {
    match tier {
        Tier::Quick => 500_000,
        Tier::Thorough => 8_000_000,
    }
}

#[derive(Serialize, Deserialize, Clone, Copy, Debug, PartialEq)]
pub enum Ty {
    U8,
    U16,
    U32,
    I8,
    I16,
    I32,
    F32,
}

impl Ty {
    fn width(self) -> usize {
        match self {
            Ty::U8 | Ty::I8 => 1,
            Ty::U16 | Ty::I16 => 2,
            _ => 4,
        }
    }
    const ALL: [Ty; 7] = [Ty::U8, Ty::U16, Ty::U32, Ty::I8, Ty::I16, Ty::I32, Ty::F32];
}

#[derive(Serialize, Deserialize, Clone, Debug, PartialEq)]
#[serde(tag = "op")]
pub enum Op {
    // positional client
    Read { ty: Ty, a: usize },
    Write { ty: Ty, a: usize, bits: u32 },
    ReadBytes { a: usize, n: usize },
    WriteBytes { a: usize, #[serde(with = "hexser")] data: Vec<u8> },
    ReadString { a: usize },
    ReadPointer { a: usize },
    ReadLabels { a: usize },
    ReadCString { a: usize },
    WriteString { a: usize, s: Option<String> },
    WritePointer { a: usize, v: Option<usize> },
    WriteLabel { a: usize, s: String },
    WriteLabels { a: usize, v: Vec<String> },
    WriteCString { a: usize, s: String },
    DeleteString { a: usize },
    DeletePointer { a: usize },
    DeleteLabels { a: usize },
    DeleteLabel { a: usize, i: usize },
    Allocate { a: usize, n: usize, ge: bool },
    AllocateAtEnd { n: usize },
    Deallocate { a: usize, n: usize, ge: bool },
    Truncate { a: usize },
    // stream reader client
    RSeek { p: usize },
    RSkip { n: usize },
    SRead { ty: Ty },
    SReadBytes { n: usize },
    SReadString,
    SReadPointer,
    SReadCString,
    SReadLabel { i: usize },
    SReadLabels,
    SReadSjis,
    SReadUtf16,
    // stream writer client
    WSeek { p: usize },
    WSkip { n: usize },
    SWrite { ty: Ty, bits: u32 },
    SWriteBytes { #[serde(with = "hexser")] data: Vec<u8> },
    SWriteString { s: Option<String> },
    SWritePointer { v: Option<usize> },
    SWriteCString { s: String },
    SWriteLabel { s: String },
    SAllocate { n: usize, ge: bool },
    SAllocateAtEnd { n: usize },
    /// every accessor at every address around the end of data / the integer limit
    Sweep { high: bool, write: bool, pattern: u32 },
    /// serialize and let the reference reader extract the c-string pointer entries
    CheckCStrings,
}

impl Op {
    fn kind(&self) -> &'static str {
        match self {
            Op::Read { .. } => "read",
            Op::Write { .. } => "write",
            Op::ReadBytes { .. } => "read_bytes",
            Op::WriteBytes { .. } => "write_bytes",
            Op::ReadString { .. } => "read_string",
            Op::ReadPointer { .. } => "read_pointer",
            Op::ReadLabels { .. } => "read_labels",
            Op::ReadCString { .. } => "read_c_string",
            Op::WriteString { .. } => "write_string",
            Op::WritePointer { .. } => "write_pointer",
            Op::WriteLabel { .. } => "write_label",
            Op::WriteLabels { .. } => "write_labels",
            Op::WriteCString { .. } => "write_c_string",
            Op::DeleteString { .. } => "delete_string",
            Op::DeletePointer { .. } => "delete_pointer",
            Op::DeleteLabels { .. } => "delete_labels",
            Op::DeleteLabel { .. } => "delete_label",
            Op::Allocate { .. } => "allocate",
            Op::AllocateAtEnd { .. } => "allocate_at_end",
            Op::Deallocate { .. } => "deallocate",
            Op::Truncate { .. } => "truncate",
            Op::RSeek { .. } => "r.seek",
            Op::RSkip { .. } => "r.skip",
            Op::SRead { .. } => "r.read",
            Op::SReadBytes { .. } => "r.read_bytes",
            Op::SReadString => "r.read_string",
            Op::SReadPointer => "r.read_pointer",
            Op::SReadCString => "r.read_c_string",
            Op::SReadLabel { .. } => "r.read_label",
            Op::SReadLabels => "r.read_labels",
            Op::SReadSjis => "r.read_shift_jis_string",
            Op::SReadUtf16 => "r.read_utf_16_string",
            Op::WSeek { .. } => "w.seek",
            Op::WSkip { .. } => "w.skip",
            Op::SWrite { .. } => "w.write",
            Op::SWriteBytes { .. } => "w.write_bytes",
            Op::SWriteString { .. } => "w.write_string",
            Op::SWritePointer { .. } => "w.write_pointer",
            Op::SWriteCString { .. } => "w.write_c_string",
            Op::SWriteLabel { .. } => "w.write_label",
            Op::SAllocate { .. } => "w.allocate",
            Op::SAllocateAtEnd { .. } => "w.allocate_at_end",
            Op::Sweep { .. } => "sweep",
            Op::CheckCStrings => "check_cstrings",
        }
    }

    /// requests that change the archive when they are accepted
    fn mutating(&self) -> bool {
        matches!(
            self,
            Op::Write { .. }
                | Op::WriteBytes { .. }
                | Op::WriteString { .. }
                | Op::WritePointer { .. }
                | Op::WriteLabel { .. }
                | Op::WriteLabels { .. }
                | Op::WriteCString { .. }
                | Op::DeleteString { .. }
                | Op::DeletePointer { .. }
                | Op::DeleteLabels { .. }
                | Op::DeleteLabel { .. }
                | Op::Allocate { .. }
                | Op::AllocateAtEnd { .. }
                | Op::Deallocate { .. }
                | Op::Truncate { .. }
                | Op::SWrite { .. }
                | Op::SWriteBytes { .. }
                | Op::SWriteString { .. }
                | Op::SWritePointer { .. }
                | Op::SWriteCString { .. }
                | Op::SWriteLabel { .. }
                | Op::SAllocate { .. }
                | Op::SAllocateAtEnd { .. }
        )
    }

    /// the property whose statement governs this operation
    fn owner(&self) -> &'static str {
        match self {
            Op::Allocate { .. }
            | Op::AllocateAtEnd { .. }
            | Op::Deallocate { .. }
            | Op::Truncate { .. }
            | Op::SAllocate { .. }
            | Op::SAllocateAtEnd { .. } => "C03",
            _ => "C04",
        }
    }
}

fn gen_cfg(_prop: &str, tier: Tier, run_seed: u64) -> Value {
    let mut r = Rng::sub(run_seed, "cfg");
    // small archives are where off-by-one errors live; a minority of runs works on larger ones
    // (the thorough tier widens the bounds: larger archives, longer histories)
    let deep = tier == Tier::Thorough;
    let max_size = match r.weighted(if deep { &[70, 18, 12] } else { &[82, 14, 4] }) {
        0 => 96,
        1 => 512,
        _ => if deep { 4096 } else { 2048 },
    };
    let ops_hi = if deep && r.chance(1, 4) { 200 } else { 80 };
    // swarm: every run scales the eleven operation-class weights by its own factors (0 = class absent)
    let swarm: Vec<u32> = (0..11).map(|_| *r.pick(&[0u32, 1, 1, 1, 2, 4])).collect();
    json!({ "big": r.chance(1, 2), "max_ops": r.range(10, ops_hi), "max_size": max_size, "swarm": swarm })
}

fn shrink_cfg(_cfg: &Value) -> Vec<Value> {
    Vec::new()
}

#[derive(Clone, Debug, PartialEq)]
enum Val {
    Unit,
    Bits(u32),
    Bytes(Vec<u8>),
    OptS(Option<String>),
    OptU(Option<usize>),
    OptV(Option<Vec<String>>),
    Str(String),
}

fn cls(e: &ArchiveError) -> ErrKind {
    match e {
        ArchiveError::OutOfBoundsAddress(_, _) => ErrKind::Oob,
        ArchiveError::UnalignedValue(_, _) => ErrKind::Unaligned,
        ArchiveError::LabelIndexOutOfBounds(_, _) => ErrKind::LabelIndex,
        _ => ErrKind::Other,
    }
}

const STRINGS: &[&str] = &["", "A", "Count", "Info", "名前", "x y", "LBL", "ｱｲ", "Z9"];

struct World {
    a: BinArchive,
    m: ArchModel,
    rpos: usize,
    wpos: usize,
    /// an allocate/deallocate/truncate ran since the c-strings were last verified
    structural_since_cs: bool,
    mutations_ok: u32,
    rejects: u32,
}

fn endian(big: bool) -> Endian {
    if big {
        Endian::Big
    } else {
        Endian::Little
    }
}

fn norm_labels(v: Option<Vec<String>>) -> Option<Vec<String>> {
    match v {
        Some(x) if x.is_empty() => None,
        o => o,
    }
}

// ---------------------------------------------------------------------------
// generation

fn gen_addr(r: &mut Rng, size: usize) -> usize {
    match r.weighted(&[55, 10, 18, 5, 12]) {
        0 => {
            if size >= 4 {
                r.below(size / 4 + 1) * 4
            } else {
                0
            }
        }
        1 => r.below(size + 1),
        2 => (size + r.below(9)).saturating_sub(4),
        3 => r.below(4),
        _ => *r.pick(&[
            (1usize << 31) - 2,
            (1usize << 31) + 2,
            (1usize << 32) - 2,
            (1usize << 32) - 4,
            (1usize << 32) + 4,
            usize::MAX - 8,
            usize::MAX - 4,
            usize::MAX - 3,
            usize::MAX - 2,
            usize::MAX - 1,
            usize::MAX,
        ]),
    }
}

fn gen_cell(r: &mut Rng, size: usize) -> usize {
    // annotation cell: mostly a valid aligned cell
    if size >= 4 && r.chance(85, 100) {
        r.below(size / 4) * 4
    } else {
        gen_addr(r, size)
    }
}

fn gen_len(r: &mut Rng, size: usize) -> usize {
    match r.weighted(&[60, 20, 8, 12]) {
        0 => r.range(1, 8),
        1 => r.below(size + 6),
        2 => 0,
        _ => *r.pick(&[usize::MAX, usize::MAX - 1, usize::MAX - 3, usize::MAX - 7, 1usize << 32, 1usize << 63]),
    }
}

fn gen_bits(r: &mut Rng) -> u32 {
    match r.below(6) {
        0 => *r.pick(&[0, 1, 0x7F, 0x80, 0xFF, 0x7FFF, 0x8000, 0xFFFF, 0x7FFF_FFFF, 0x8000_0000, 0xFFFF_FFFF]),
        // NaN payloads, infinities, -0.0
        1 => *r.pick(&[0x7FC0_0000, 0x7FC0_0001, 0xFFC0_1234, 0x7F80_0001, 0x7F80_0000, 0xFF80_0000, 0x8000_0000, 0x7FBF_FFFF]),
        _ => r.next() as u32,
    }
}

fn gen_string(r: &mut Rng) -> String {
    r.pick(STRINGS).to_string()
}

fn gen_op(r: &mut Rng, w: &World, prop: &str, max_size: usize, swarm: &[u32]) -> Op {
    let size = w.m.size();
    if size == 0 && r.chance(9, 10) {
        if max_size > 96 {
            return Op::AllocateAtEnd { n: r.range(max_size / 8, max_size / 2) & !3 };
        }
        return Op::AllocateAtEnd { n: *r.pick(&[4, 8, 12, 16, 24, 32, 6]) };
    }
    let c3 = prop == "C03";
    // weights: [structural, annotations write, annotation delete, annotation read, typed read, typed write,
    //           bytes, stream reader, stream writer, sweep, cstring check]
    let wts: [u32; 11] = if c3 {
        [34, 26, 5, 3, 2, 6, 2, 3, 6, 1, 8]
    } else {
        [6, 12, 5, 8, 12, 14, 9, 14, 14, 3, 1]
    };
    let mut wts = wts;
    for (i, f) in swarm.iter().enumerate().take(11) {
        wts[i] *= f;
    }
    // the property's own operation classes never vanish
    if c3 {
        wts[0] = wts[0].max(10);
    } else {
        wts[4] = wts[4].max(4);
        wts[5] = wts[5].max(4);
    }
    match r.weighted(&wts) {
        0 => {
            let big = size > max_size;
            match r.weighted(&[if big { 1 } else { 5 }, if big { 4 } else { 14 }, if big { 20 } else { 11 }, 5, 4]) {
                0 => Op::AllocateAtEnd {
                    n: if r.chance(4, 5) { r.range(1, 4) * 4 } else { r.range(0, 7) },
                },
                1 => {
                    let a = match r.weighted(&[65, 12, 10, 13]) {
                        0 => r.below(size / 4 + 1) * 4,
                        1 => size,
                        2 => r.below(size + 2),
                        _ => gen_addr(r, size),
                    };
                    let n = match r.weighted(&[80, 5, 15]) {
                        0 => r.range(1, 4) * 4,
                        1 => 0,
                        _ => *r.pick(&[1, 2, 3, 5, 6, 7, 9]),
                    };
                    Op::Allocate { a, n, ge: r.chance(1, 2) }
                }
                2 => {
                    let a = match r.weighted(&[75, 10, 15]) {
                        0 => r.below(size / 4 + 1) * 4,
                        1 => r.below(size + 2),
                        _ => gen_addr(r, size),
                    };
                    let room = size.saturating_sub(a);
                    let n = match r.weighted(&[70, 10, 4, 8, 8]) {
                        0 => (r.range(1, 4) * 4).min((room / 4).max(1) * 4),
                        1 => room & !3,
                        2 => 0,
                        3 => *r.pick(&[1, 2, 3, 5, 6, 7]),
                        _ => *r.pick(&[
                            room.wrapping_add(4) & !3,
                            usize::MAX - 3,
                            usize::MAX - 7,
                            (usize::MAX - 3).wrapping_sub(a & !3),
                            1usize << 63,
                            1usize << 32,
                        ]),
                    };
                    Op::Deallocate { a, n, ge: r.chance(1, 2) }
                }
                3 => Op::Truncate { a: r.below(size / 4 + 3) * 4 },
                _ => {
                    if r.chance(1, 3) {
                        Op::SAllocateAtEnd { n: r.range(0, 3) * 4 + if r.chance(1, 6) { 1 } else { 0 } }
                    } else {
                        Op::SAllocate {
                            n: if r.chance(5, 6) { r.range(1, 3) * 4 } else { r.range(0, 7) },
                            ge: r.chance(1, 2),
                        }
                    }
                }
            }
        }
        1 => {
            let a = gen_cell(r, size);
            match r.weighted(&[22, 22, 26, 8, 14, 8]) {
                0 => Op::WriteString { a, s: if r.chance(9, 10) { Some(gen_string(r)) } else { None } },
                1 => {
                    let v = match r.weighted(&[70, 12, 10, 8]) {
                        0 => r.below(size / 4 + 1) * 4,
                        1 => size,
                        2 => r.below(size + 1),
                        _ => size + r.range(1, 16),
                    };
                    Op::WritePointer { a, v: if r.chance(9, 10) { Some(v) } else { None } }
                }
                2 => {
                    let a = match r.weighted(&[70, 14, 8, 8]) {
                        0 => r.below(size / 4 + 1) * 4,
                        1 => size,
                        2 => r.below(size + 2),
                        _ => gen_addr(r, size),
                    };
                    Op::WriteLabel { a, s: gen_string(r) }
                }
                3 => {
                    let a = if r.chance(4, 5) { r.below(size / 4 + 1) * 4 } else { gen_addr(r, size) };
                    let k = r.below(4);
                    Op::WriteLabels { a, v: (0..k).map(|_| gen_string(r)).collect() }
                }
                4 => {
                    // keep one annotation kind per cell where possible
                    let mut a = a;
                    for _ in 0..4 {
                        if w.m.text.contains_key(&a) || w.m.pointers.contains_key(&a) {
                            a = gen_cell(r, size);
                        }
                    }
                    Op::WriteCString { a, s: gen_string(r) }
                }
                _ => Op::SWriteLabel { s: gen_string(r) },
            }
        }
        2 => {
            let a = gen_cell(r, size);
            match r.below(4) {
                0 => Op::DeleteString { a },
                1 => Op::DeletePointer { a },
                2 => Op::DeleteLabels { a },
                _ => Op::DeleteLabel { a, i: r.below(3) },
            }
        }
        3 => {
            let a = gen_cell(r, size);
            match r.below(4) {
                0 => Op::ReadString { a },
                1 => Op::ReadPointer { a },
                2 => Op::ReadLabels { a },
                _ => Op::ReadCString { a },
            }
        }
        4 => Op::Read { ty: *r.pick(&Ty::ALL), a: gen_addr(r, size) },
        5 => Op::Write { ty: *r.pick(&Ty::ALL), a: gen_addr(r, size), bits: gen_bits(r) },
        6 => {
            if r.chance(1, 2) {
                Op::ReadBytes { a: gen_addr(r, size), n: gen_len(r, size) }
            } else {
                let n = match r.weighted(&[70, 25, 5]) {
                    0 => r.range(1, 8),
                    1 => r.below(size + 6),
                    _ => 0,
                };
                Op::WriteBytes { a: gen_addr(r, size), data: r.bytes(n) }
            }
        }
        7 => match r.weighted(&[14, 8, 30, 10, 6, 6, 5, 5, 5, 6, 5]) {
            0 => Op::RSeek { p: gen_addr(r, size) },
            1 => Op::RSkip { n: r.below(9) },
            2 => Op::SRead { ty: *r.pick(&Ty::ALL) },
            3 => Op::SReadBytes { n: gen_len(r, size) },
            4 => Op::SReadString,
            5 => Op::SReadPointer,
            6 => Op::SReadCString,
            7 => Op::SReadLabel { i: r.below(3) },
            8 => Op::SReadLabels,
            9 => Op::SReadSjis,
            _ => Op::SReadUtf16,
        },
        8 => match r.weighted(&[14, 8, 30, 12, 8, 8, 5, 6, 6, 3]) {
            0 => Op::WSeek { p: gen_addr(r, size) },
            1 => Op::WSkip { n: r.below(9) },
            2 => Op::SWrite { ty: *r.pick(&Ty::ALL), bits: gen_bits(r) },
            3 => {
                let n = if r.chance(3, 4) { r.range(1, 8) } else { r.below(size + 6) };
                Op::SWriteBytes { data: r.bytes(n) }
            }
            4 => Op::SWriteString { s: if r.chance(9, 10) { Some(gen_string(r)) } else { None } },
            5 => Op::SWritePointer {
                v: if r.chance(9, 10) { Some(r.below(size / 4 + 1) * 4) } else { None },
            },
            6 => Op::SWriteCString { s: gen_string(r) },
            7 => Op::SWriteLabel { s: gen_string(r) },
            8 => Op::SAllocate { n: if r.chance(5, 6) { r.range(1, 3) * 4 } else { r.range(0, 7) }, ge: r.chance(1, 2) },
            _ => Op::SAllocateAtEnd { n: r.range(0, 8) },
        },
        9 => Op::Sweep { high: r.chance(1, 2), write: r.chance(1, 2), pattern: gen_bits(r) },
        _ => Op::CheckCStrings,
    }
}

// ---------------------------------------------------------------------------
// comparison helpers

fn show(v: &Result<Val, ErrKind>) -> String {
    match v {
        Ok(Val::Unit) => "ok".into(),
        Ok(Val::Bits(b)) => format!("ok:{:#x}", b),
        Ok(Val::Bytes(b)) => format!("ok:[{}]", hex(b)),
        Ok(Val::OptS(s)) => format!("ok:{:?}", s),
        Ok(Val::OptU(s)) => format!("ok:{:?}", s),
        Ok(Val::OptV(s)) => format!("ok:{:?}", s),
        Ok(Val::Str(s)) => format!("ok:{:?}", s),
        Err(k) => format!("err:{:?}", k),
    }
}

/// Compare mila's result with the model's. `strict_kind`: the statement names
/// the error (C04: out-of-bounds error); otherwise any Err counts as "rejected".
fn cmp(
    ctx: &mut RunCtx,
    owner: &str,
    api: &str,
    got: Result<Val, ArchiveError>,
    want: MRes<Val>,
    strict_kind: bool,
) -> Step<bool> {
    let g: Result<Val, ErrKind> = match &got {
        Ok(v) => Ok(v.clone()),
        Err(e) => Err(cls(e)),
    };
    let same = match (&g, &want) {
        (Ok(a), Ok(b)) => a == b,
        (Err(a), Err(b)) => !strict_kind || a == b || *b == ErrKind::Other,
        _ => false,
    };
    ctx.outcome(api, if g.is_ok() { "ok" } else { "err" }, &show(&g));
    if !same {
        let what = match (&g, &want) {
            (Ok(_), Err(_)) => "accepted_invalid_request",
            (Err(_), Ok(_)) => "rejected_valid_request",
            (Ok(_), Ok(_)) => "wrong_value",
            _ => "wrong_error_kind",
        };
        return ctx.violation_for(
            owner,
            "return_value",
            format!("{}|{}", api, what),
            format!("{}: mila returned {} (err detail {:?}), model says {}", api, show(&g), got.as_ref().err().map(|e| e.to_string()), show(&want)),
        );
    }
    Ok(g.is_ok())
}

fn check_state(ctx: &mut RunCtx, w: &World, owner: &str, api: &str) -> Step<()> {
    let a = &w.a;
    let m = &w.m;
    let diff: Option<String> = ctx.mila("state observation", || {
        if a.size() != m.size() {
            return Some(format!("size {} != model {}", a.size(), m.size()));
        }
        let n = m.size();
        if n > 0 {
            match a.read_bytes(0, n) {
                Ok(b) => {
                    if b != &m.data[..] {
                        let i = (0..n).find(|i| b[*i] != m.data[*i]).unwrap();
                        return Some(format!("bytes differ at {:#x}: mila {:#04x}, model {:#04x}", i, b[i], m.data[i]));
                    }
                }
                Err(e) => return Some(format!("ACCESSOR read_bytes(0,size) failed: {}", e)),
            }
        }
        if n >= 4 {
            for addr in 0..=(n - 4) {
                match a.read_string(addr) {
                    Ok(s) => {
                        if s.as_ref() != m.text.get(&addr) {
                            return Some(format!("string at {:#x}: mila {:?}, model {:?}", addr, s, m.text.get(&addr)));
                        }
                    }
                    Err(e) => return Some(format!("ACCESSOR read_string({:#x}) failed: {}", addr, e)),
                }
                match a.read_pointer(addr) {
                    Ok(p) => {
                        if p.as_ref() != m.pointers.get(&addr) {
                            return Some(format!("pointer at {:#x}: mila {:?}, model {:?}", addr, p, m.pointers.get(&addr)));
                        }
                    }
                    Err(e) => return Some(format!("ACCESSOR read_pointer({:#x}) failed: {}", addr, e)),
                }
                match a.read_labels(addr) {
                    Ok(l) => {
                        let l = norm_labels(l);
                        let want = norm_labels(m.labels.get(&addr).cloned());
                        if l != want {
                            return Some(format!("labels at {:#x}: mila {:?}, model {:?}", addr, l, want));
                        }
                    }
                    Err(e) => return Some(format!("ACCESSOR read_labels({:#x}) failed: {}", addr, e)),
                }
            }
        }
        let group = |v: Vec<(usize, String)>| {
            let mut g: std::collections::BTreeMap<usize, Vec<String>> = std::collections::BTreeMap::new();
            for (k, s) in v {
                g.entry(k).or_default().push(s);
            }
            g
        };
        let al = group(a.all_labels());
        let ml = group(m.all_labels());
        if al != ml {
            return Some(format!("all_labels: mila {:?}, model {:?}", al, ml));
        }
        // the other two label views: the sorted flat list and the lookup by name
        let mut flat: Vec<(usize, String)> = m.all_labels();
        flat.sort();
        let gl = a.get_labels();
        if gl != flat {
            return Some(format!("get_labels: mila {:?}, model (sorted) {:?}", gl, flat));
        }
        for (addr, name) in &flat {
            let want: Vec<usize> = flat.iter().filter(|(_, s)| s == name).map(|(k, _)| *k).collect();
            match a.find_label_address(name) {
                Some(x) if want.contains(&x) => {}
                other => {
                    return Some(format!("find_label_address({:?}): mila {:?}, model one of {:?} (e.g. {:#x})", name, other, want, addr));
                }
            }
        }
        if let Some(x) = a.find_label_address("\u{1}no such label\u{1}") {
            return Some(format!("find_label_address(absent name): mila Some({:#x})", x));
        }
        let pd: std::collections::BTreeSet<usize> = a.pointer_destinations().into_iter().collect();
        if pd != m.pointer_destinations() {
            return Some(format!("pointer_destinations: mila {:?}, model {:?}", pd, m.pointer_destinations()));
        }
        None
    })?;
    if let Some(d) = diff {
        if let Some(rest) = d.strip_prefix("ACCESSOR ") {
            // an in-range accessor call was rejected: that is C04's bounds clause,
            // whatever operation ran before
            return ctx.violation_for(
                "C04",
                "return_value",
                format!("state_observation|rejected_valid_request|{}", rest.split('(').next().unwrap_or("")),
                format!("after {}: {}", api, rest),
            );
        }
        let comp = d.split(|c: char| c == ' ' || c == ':').next().unwrap_or("state").to_string();
        return ctx.violation_for(
            owner,
            "state_after_op",
            format!("{}|{}", api, comp),
            format!("after {}: {}", api, d),
        );
    }
    Ok(())
}

// ---------------------------------------------------------------------------
// execution

fn typed_read(a: &BinArchive, ty: Ty, addr: usize) -> Result<Val, ArchiveError> {
    Ok(Val::Bits(match ty {
        Ty::U8 => a.read_u8(addr)? as u32,
        Ty::U16 => a.read_u16(addr)? as u32,
        Ty::U32 => a.read_u32(addr)?,
        Ty::I8 => a.read_i8(addr)? as u8 as u32,
        Ty::I16 => a.read_i16(addr)? as u16 as u32,
        Ty::I32 => a.read_i32(addr)? as u32,
        Ty::F32 => a.read_f32(addr)?.to_bits(),
    }))
}

fn typed_write(a: &mut BinArchive, ty: Ty, addr: usize, bits: u32) -> Result<Val, ArchiveError> {
    match ty {
        Ty::U8 => a.write_u8(addr, bits as u8)?,
        Ty::U16 => a.write_u16(addr, bits as u16)?,
        Ty::U32 => a.write_u32(addr, bits)?,
        Ty::I8 => a.write_i8(addr, bits as u8 as i8)?,
        Ty::I16 => a.write_i16(addr, bits as u16 as i16)?,
        Ty::I32 => a.write_i32(addr, bits as i32)?,
        Ty::F32 => a.write_f32(addr, f32::from_bits(bits))?,
    }
    Ok(Val::Unit)
}

fn stream_read(r: &mut BinArchiveReader, ty: Ty) -> Result<Val, ArchiveError> {
    Ok(Val::Bits(match ty {
        Ty::U8 => r.read_u8()? as u32,
        Ty::U16 => r.read_u16()? as u32,
        Ty::U32 => r.read_u32()?,
        Ty::I8 => r.read_i8()? as u8 as u32,
        Ty::I16 => r.read_i16()? as u16 as u32,
        Ty::I32 => r.read_i32()? as u32,
        Ty::F32 => r.read_f32()?.to_bits(),
    }))
}

fn stream_write(w: &mut BinArchiveWriter, ty: Ty, bits: u32) -> Result<Val, ArchiveError> {
    match ty {
        Ty::U8 => w.write_u8(bits as u8)?,
        Ty::U16 => w.write_u16(bits as u16)?,
        Ty::U32 => w.write_u32(bits)?,
        Ty::I8 => w.write_i8(bits as u8 as i8)?,
        Ty::I16 => w.write_i16(bits as u16 as i16)?,
        Ty::I32 => w.write_i32(bits as i32)?,
        Ty::F32 => w.write_f32(f32::from_bits(bits))?,
    }
    Ok(Val::Unit)
}

fn mask(ty: Ty, bits: u32) -> u32 {
    match ty.width() {
        1 => bits & 0xFF,
        2 => bits & 0xFFFF,
        _ => bits,
    }
}

fn cursor_check(ctx: &mut RunCtx, api: &str, ok: bool, before: usize, after: usize, width: usize) -> Step<()> {
    // the cursor advances by exactly the width of each *successful* value access:
    // a rejected access is not a successful one and must leave it where it was
    if !ok && after != before {
        return ctx.violation_for(
            "C04",
            "cursor",
            format!("{}|cursor_moved_by_failed_access", api),
            format!("{}: the access was rejected but the cursor moved {:#x} -> {:#x}", api, before, after),
        );
    }
    if ok {
        let want = before.wrapping_add(width);
        if after != want {
            return ctx.violation_for(
                "C04",
                "cursor",
                format!("{}|cursor", api),
                format!("{}: cursor was {:#x}, is {:#x}, expected {:#x} (advance by {})", api, before, after, want, width),
            );
        }
    }
    Ok(())
}

fn exec(ctx: &mut RunCtx, w: &mut World, op: &Op) -> Step<()> {
    let api = op.kind();
    let owner = op.owner();
    ctx.owner = owner.to_string();
    let size0 = w.m.size();
    let mut mutated_ok = false;
    let mut rejected = false;
    // the stored form before a request that may be rejected: a rejected request changes nothing,
    // including what only shows when the archive is serialized (pending c-string buckets)
    let image0: Option<Vec<u8>> = if op.mutating() { guarded(|| w.a.serialize().ok()).ok().flatten() } else { None };
    match op {
        Op::Read { ty, a } => {
            let got = ctx.mila(api, || typed_read(&w.a, *ty, *a))?;
            let want = w.m.read_uint(*a, ty.width()).map(Val::Bits);
            rejected = !cmp(ctx, owner, api, got, want, true)?;
        }
        Op::Write { ty, a, bits } => {
            let got = ctx.mila(api, || typed_write(&mut w.a, *ty, *a, *bits))?;
            let want = w.m.write_uint(*a, ty.width(), mask(*ty, *bits)).map(|_| Val::Unit);
            mutated_ok = cmp(ctx, owner, api, got, want, true)?;
            rejected = !mutated_ok;
        }
        Op::ReadBytes { a, n } => {
            let got = ctx.mila(api, || w.a.read_bytes(*a, *n).map(|b| Val::Bytes(b.to_vec())))?;
            if *n == 0 {
                // empty range: outside the statement; only "no panic, no effect"
                ctx.outcome(api, "empty", if got.is_ok() { "ok" } else { "err" });
            } else {
                let want = w.m.read_bytes(*a, *n).map(Val::Bytes);
                rejected = !cmp(ctx, owner, api, got, want, true)?;
            }
        }
        Op::WriteBytes { a, data } => {
            let got = ctx.mila(api, || w.a.write_bytes(*a, data).map(|_| Val::Unit))?;
            if data.is_empty() {
                ctx.outcome(api, "empty", if got.is_ok() { "ok" } else { "err" });
            } else {
                let want = w.m.write_bytes(*a, data).map(|_| Val::Unit);
                mutated_ok = cmp(ctx, owner, api, got, want, true)?;
                rejected = !mutated_ok;
            }
        }
        Op::ReadString { a } => {
            let got = ctx.mila(api, || w.a.read_string(*a).map(Val::OptS))?;
            rejected = !cmp(ctx, owner, api, got, w.m.read_string(*a).map(Val::OptS), true)?;
        }
        Op::ReadPointer { a } => {
            let got = ctx.mila(api, || w.a.read_pointer(*a).map(Val::OptU))?;
            rejected = !cmp(ctx, owner, api, got, w.m.read_pointer(*a).map(Val::OptU), true)?;
        }
        Op::ReadLabels { a } => {
            let got = ctx.mila(api, || w.a.read_labels(*a).map(|l| Val::OptV(norm_labels(l))))?;
            let want = w.m.read_labels(*a).map(|l| Val::OptV(norm_labels(l)));
            rejected = !cmp(ctx, owner, api, got, want, true)?;
        }
        Op::ReadCString { a } => {
            let got = ctx.mila(api, || w.a.read_c_string(*a).map(Val::OptS))?;
            rejected = !cmp(ctx, owner, api, got, w.m.read_c_string(*a).map(Val::OptS), false)?;
        }
        Op::WriteString { a, s } => {
            let got = ctx.mila(api, || w.a.write_string(*a, s.as_deref()).map(|_| Val::Unit))?;
            let want = w.m.write_string(*a, s.as_deref()).map(|_| Val::Unit);
            mutated_ok = cmp(ctx, owner, api, got, want, true)?;
            rejected = !mutated_ok;
        }
        Op::WritePointer { a, v } => {
            let got = ctx.mila(api, || w.a.write_pointer(*a, *v).map(|_| Val::Unit))?;
            let want = w.m.write_pointer(*a, *v).map(|_| Val::Unit);
            mutated_ok = cmp(ctx, owner, api, got, want, true)?;
            rejected = !mutated_ok;
        }
        Op::WriteLabel { a, s } => {
            let got = ctx.mila(api, || w.a.write_label(*a, s).map(|_| Val::Unit))?;
            let want = w.m.write_label(*a, s).map(|_| Val::Unit);
            mutated_ok = cmp(ctx, owner, api, got, want, true)?;
            rejected = !mutated_ok;
            if mutated_ok && *a == size0 {
                ctx.probe("label_written_at_end_address");
            }
        }
        Op::WriteLabels { a, v } => {
            let got = ctx.mila(api, || w.a.write_labels(*a, v.clone()).map(|_| Val::Unit))?;
            let want = w.m.write_labels(*a, v.clone()).map(|_| Val::Unit);
            mutated_ok = cmp(ctx, owner, api, got, want, true)?;
            rejected = !mutated_ok;
        }
        Op::WriteCString { a, s } => {
            let got = ctx.mila(api, || w.a.write_c_string(*a, s.clone()).map(|_| Val::Unit))?;
            let want = w.m.write_c_string(*a, s).map(|_| Val::Unit);
            mutated_ok = cmp(ctx, owner, api, got, want, true)?;
            rejected = !mutated_ok;
        }
        Op::DeleteString { a } => {
            let got = ctx.mila(api, || w.a.delete_string(*a).map(|_| Val::Unit))?;
            let want = w.m.write_string(*a, None).map(|_| Val::Unit);
            mutated_ok = cmp(ctx, owner, api, got, want, true)?;
            rejected = !mutated_ok;
        }
        Op::DeletePointer { a } => {
            let got = ctx.mila(api, || w.a.delete_pointer(*a).map(|_| Val::Unit))?;
            let want = w.m.write_pointer(*a, None).map(|_| Val::Unit);
            mutated_ok = cmp(ctx, owner, api, got, want, true)?;
            rejected = !mutated_ok;
        }
        Op::DeleteLabels { a } => {
            let got = ctx.mila(api, || w.a.delete_labels(*a).map(|_| Val::Unit))?;
            let want = w.m.delete_labels(*a).map(|_| Val::Unit);
            mutated_ok = cmp(ctx, owner, api, got, want, true)?;
            rejected = !mutated_ok;
        }
        Op::DeleteLabel { a, i } => {
            let got = ctx.mila(api, || w.a.delete_label(*a, *i).map(|_| Val::Unit))?;
            let want = w.m.delete_label(*a, *i).map(|_| Val::Unit);
            if want == Err(ErrKind::LabelIndex) {
                // an index beyond the bucket: no statement says whether that is an error or a no-op;
                // either way nothing may change (the state comparison below)
                ctx.outcome(api, "index_beyond_bucket", if got.is_ok() { "ok" } else { "err" });
            } else {
                mutated_ok = cmp(ctx, owner, api, got, want, true)?;
                rejected = !mutated_ok;
            }
        }
        Op::Allocate { a, n, ge } => {
            probes_before_allocate(ctx, &w.m, *a, *n, *ge);
            let got = ctx.mila(api, || w.a.allocate(*a, *n, *ge).map(|_| Val::Unit))?;
            let want = w.m.allocate(*a, *n, *ge).map(|_| Val::Unit);
            if *n == 0 && want.is_ok() {
                // inserting nothing: accepted or rejected, it changes nothing
                ctx.outcome(api, "zero_bytes", if got.is_ok() { "ok" } else { "err" });
            } else {
                mutated_ok = cmp(ctx, owner, api, got, want, false)?;
                rejected = !mutated_ok;
                w.structural_since_cs |= mutated_ok;
            }
        }
        Op::AllocateAtEnd { n } => {
            ctx.mila(api, || w.a.allocate_at_end(*n))?;
            w.m.allocate_at_end(*n);
            ctx.outcome(api, "ok", "ok");
            mutated_ok = true;
            w.structural_since_cs = true;
        }
        Op::Deallocate { a, n, ge } => {
            probes_before_deallocate(ctx, &w.m, *a, *n);
            let got = ctx.mila(api, || w.a.deallocate(*a, *n, *ge).map(|_| Val::Unit))?;
            let want = w.m.deallocate(*a, *n).map(|_| Val::Unit);
            if *n == 0 && want.is_ok() {
                // removing nothing: accepted or rejected, it changes nothing
                ctx.outcome(api, "zero_bytes", if got.is_ok() { "ok" } else { "err" });
            } else {
                mutated_ok = cmp(ctx, owner, api, got, want, false)?;
                rejected = !mutated_ok;
                w.structural_since_cs |= mutated_ok;
            }
        }
        Op::Truncate { a } => {
            let straddles = |k: &usize| *k < *a && *k + 4 > *a;
            if *a % 4 != 0
                || (*a < size0
                    && (w.m.text.keys().any(straddles)
                        || w.m.pointers.keys().any(straddles)
                        || w.m.cstrings.iter().any(|c| straddles(&c.0))))
            {
                // only cuts at a cell boundary that do not split an annotated
                // (misaligned) cell are in the statement's domain
                ctx.outcome(api, "skipped", "cut not in domain");
                return Ok(());
            }
            if *a < size0 {
                if w.m.labels.get(&size0).map(|b| !b.is_empty()).unwrap_or(false) {
                    ctx.probe("truncate_with_label_at_old_end_address");
                }
                if w.m.cstrings.iter().any(|c| c.0 >= *a) {
                    ctx.probe("truncate_drops_pending_cstring");
                }
            }
            let got = ctx.mila(api, || w.a.truncate(*a).map(|_| Val::Unit))?;
            let unspecified = w.m.truncate(*a);
            mutated_ok = cmp(ctx, owner, api, got, Ok(Val::Unit), false)?;
            // a pointer cell in front of the cut is not "at or beyond the cut": it stays, whatever it
            // points at (the ordinary state comparison below checks that)
            if !unspecified.is_empty() {
                ctx.probe("truncate_leaves_pointer_to_removed_region");
            }
            w.structural_since_cs |= *a < size0;
        }
        Op::RSeek { p } => {
            w.rpos = *p;
            ctx.outcome(api, "ok", "");
        }
        Op::RSkip { n } => {
            if let Some(p) = w.rpos.checked_add(*n) {
                let before = w.rpos;
                let after = ctx.mila(api, || {
                    let mut r = BinArchiveReader::new(&w.a, before);
                    r.skip(*n);
                    r.tell()
                })?;
                if after != p {
                    return ctx.violation_for("C04", "cursor", "r.skip|cursor", format!("skip({}) from {:#x} gave {:#x}", n, before, after));
                }
                w.rpos = p;
            }
            ctx.outcome(api, "ok", "");
        }
        Op::SRead { ty } => {
            let before = w.rpos;
            let (got, after) = ctx.mila(api, || {
                let mut r = BinArchiveReader::new(&w.a, before);
                let g = stream_read(&mut r, *ty);
                (g, r.tell())
            })?;
            let want = w.m.read_uint(before, ty.width()).map(Val::Bits);
            let ok = cmp(ctx, owner, api, got, want, true)?;
            cursor_check(ctx, api, ok, before, after, ty.width())?;
            w.rpos = after;
            rejected = !ok;
        }
        Op::SReadBytes { n } => {
            let before = w.rpos;
            let (got, after) = ctx.mila(api, || {
                let mut r = BinArchiveReader::new(&w.a, before);
                let g = r.read_bytes(*n).map(Val::Bytes);
                (g, r.tell())
            })?;
            if *n == 0 {
                ctx.outcome(api, "empty", if got.is_ok() { "ok" } else { "err" });
                if got.is_ok() && after != before {
                    return ctx.violation_for("C04", "cursor", "r.read_bytes|cursor", "empty read moved the cursor".to_string());
                }
            } else {
                let want = w.m.read_bytes(before, *n).map(Val::Bytes);
                let ok = cmp(ctx, owner, api, got, want, true)?;
                cursor_check(ctx, api, ok, before, after, *n)?;
                rejected = !ok;
            }
            w.rpos = after;
        }
        Op::SReadString | Op::SReadPointer | Op::SReadCString => {
            let before = w.rpos;
            let (got, after) = ctx.mila(api, || {
                let mut r = BinArchiveReader::new(&w.a, before);
                let g = match op {
                    Op::SReadString => r.read_string().map(Val::OptS),
                    Op::SReadPointer => r.read_pointer().map(Val::OptU),
                    _ => r.read_c_string().map(Val::OptS),
                };
                (g, r.tell())
            })?;
            let want = match op {
                Op::SReadString => w.m.read_string(before).map(Val::OptS),
                Op::SReadPointer => w.m.read_pointer(before).map(Val::OptU),
                _ => w.m.read_c_string(before).map(Val::OptS),
            };
            let strict = !matches!(op, Op::SReadCString);
            let ok = cmp(ctx, owner, api, got, want, strict)?;
            cursor_check(ctx, api, ok, before, after, 4)?;
            w.rpos = after;
            rejected = !ok;
        }
        Op::SReadLabel { i } => {
            let before = w.rpos;
            let (got, after) = ctx.mila(api, || {
                let mut r = BinArchiveReader::new(&w.a, before);
                let g = r.read_label(*i).map(Val::OptS);
                (g, r.tell())
            })?;
            let want = w.m.read_labels(before).map(|l| Val::OptS(l.and_then(|b| b.get(*i).cloned())));
            let ok = cmp(ctx, owner, api, got, want, true)?;
            // label accesses do not move the cursor
            if after != before {
                return ctx.violation_for("C04", "cursor", "r.read_label|cursor", format!("label access moved the cursor {:#x} -> {:#x}", before, after));
            }
            rejected = !ok;
        }
        Op::SReadLabels => {
            let before = w.rpos;
            let (got, after) = ctx.mila(api, || {
                let mut r = BinArchiveReader::new(&w.a, before);
                let g = r.read_labels().map(|l| Val::OptV(norm_labels(l)));
                (g, r.tell())
            })?;
            let want = w.m.read_labels(before).map(|l| Val::OptV(norm_labels(l)));
            let ok = cmp(ctx, owner, api, got, want, true)?;
            if after != before {
                return ctx.violation_for("C04", "cursor", "r.read_labels|cursor", format!("label access moved the cursor {:#x} -> {:#x}", before, after));
            }
            rejected = !ok;
        }
        Op::SReadSjis | Op::SReadUtf16 => {
            // text reads at the cursor: bytes up to the terminator, then the
            // cursor is padded to the next cell boundary
            let before = w.rpos;
            let utf16 = matches!(op, Op::SReadUtf16);
            let (got, after) = ctx.mila(api, || {
                let mut r = BinArchiveReader::new(&w.a, before);
                let g = if utf16 { r.read_utf_16_string() } else { r.read_shift_jis_string() };
                (g, r.tell())
            })?;
            let want = model_text_read(&w.m, before, utf16);
            let g2: Result<Val, ErrKind> = match &got {
                Ok(s) => Ok(Val::Str(s.clone())),
                Err(_) => Err(ErrKind::Other),
            };
            ctx.outcome(api, if g2.is_ok() { "ok" } else { "err" }, &show(&g2));
            match (&g2, &want) {
                (Ok(Val::Str(s)), Some(Ok((ws, wafter)))) => {
                    if s != ws {
                        return ctx.violation_for("C04", "return_value", format!("{}|wrong_value", api), format!("{} at {:#x}: mila {:?}, model {:?}", api, before, s, ws));
                    }
                    if after != *wafter {
                        return ctx.violation_for("C04", "cursor", format!("{}|cursor", api), format!("{} at {:#x}: cursor {:#x}, expected {:#x}", api, before, after, wafter));
                    }
                }
                (Err(_), Some(Err(()))) => {}
                (_, None) => {} // undecodable text: outside what the model states
                (g, wv) => {
                    return ctx.violation_for(
                        "C04",
                        "return_value",
                        format!("{}|{}", api, if g.is_ok() { "accepted_invalid_request" } else { "rejected_valid_request" }),
                        format!("{} at {:#x}: mila {}, model {:?}", api, before, show(g), wv),
                    );
                }
            }
            w.rpos = after;
        }
        Op::WSeek { p } => {
            w.wpos = *p;
            ctx.outcome(api, "ok", "");
        }
        Op::WSkip { n } => {
            if let Some(p) = w.wpos.checked_add(*n) {
                let before = w.wpos;
                let after = ctx.mila(api, || {
                    let mut wr = BinArchiveWriter::new(&mut w.a, before);
                    wr.skip(*n);
                    wr.tell()
                })?;
                if after != p {
                    return ctx.violation_for("C04", "cursor", "w.skip|cursor", format!("skip({}) from {:#x} gave {:#x}", n, before, after));
                }
                w.wpos = p;
            }
            ctx.outcome(api, "ok", "");
        }
        Op::SWrite { ty, bits } => {
            let before = w.wpos;
            let (got, after) = ctx.mila(api, || {
                let mut wr = BinArchiveWriter::new(&mut w.a, before);
                let g = stream_write(&mut wr, *ty, *bits);
                (g, wr.tell())
            })?;
            let want = w.m.write_uint(before, ty.width(), mask(*ty, *bits)).map(|_| Val::Unit);
            let ok = cmp(ctx, owner, api, got, want, true)?;
            cursor_check(ctx, api, ok, before, after, ty.width())?;
            w.wpos = after;
            mutated_ok = ok;
            rejected = !ok;
        }
        Op::SWriteBytes { data } => {
            let before = w.wpos;
            let (got, after) = ctx.mila(api, || {
                let mut wr = BinArchiveWriter::new(&mut w.a, before);
                let g = wr.write_bytes(data).map(|_| Val::Unit);
                (g, wr.tell())
            })?;
            if data.is_empty() {
                ctx.outcome(api, "empty", if got.is_ok() { "ok" } else { "err" });
            } else {
                let want = w.m.write_bytes(before, data).map(|_| Val::Unit);
                let ok = cmp(ctx, owner, api, got, want, true)?;
                cursor_check(ctx, api, ok, before, after, data.len())?;
                mutated_ok = ok;
                rejected = !ok;
                if !ok && w.m.in_range(before, 1) {
                    ctx.probe("stream_write_bytes_overrun_with_valid_prefix");
                }
            }
            w.wpos = after;
        }
        Op::SWriteString { .. } | Op::SWritePointer { .. } | Op::SWriteCString { .. } => {
            let before = w.wpos;
            let (got, after) = ctx.mila(api, || {
                let mut wr = BinArchiveWriter::new(&mut w.a, before);
                let g = match op {
                    Op::SWriteString { s } => wr.write_string(s.as_deref()),
                    Op::SWritePointer { v } => wr.write_pointer(*v),
                    Op::SWriteCString { s } => wr.write_c_string(s.clone()),
                    _ => unreachable!(),
                }
                .map(|_| Val::Unit);
                (g, wr.tell())
            })?;
            let want = match op {
                Op::SWriteString { s } => w.m.write_string(before, s.as_deref()),
                Op::SWritePointer { v } => w.m.write_pointer(before, *v),
                Op::SWriteCString { s } => w.m.write_c_string(before, s),
                _ => unreachable!(),
            }
            .map(|_| Val::Unit);
            let ok = cmp(ctx, owner, api, got, want, true)?;
            cursor_check(ctx, api, ok, before, after, 4)?;
            w.wpos = after;
            mutated_ok = ok;
            rejected = !ok;
        }
        Op::SWriteLabel { s } => {
            let before = w.wpos;
            let (got, after) = ctx.mila(api, || {
                let mut wr = BinArchiveWriter::new(&mut w.a, before);
                let g = wr.write_label(s).map(|_| Val::Unit);
                (g, wr.tell())
            })?;
            let want = w.m.write_label(before, s).map(|_| Val::Unit);
            let ok = cmp(ctx, owner, api, got, want, true)?;
            if after != before {
                return ctx.violation_for("C04", "cursor", "w.write_label|cursor", format!("label access moved the cursor {:#x} -> {:#x}", before, after));
            }
            mutated_ok = ok;
            rejected = !ok;
        }
        Op::SAllocate { n, ge } => {
            let before = w.wpos;
            if before == size0 {
                ctx.probe("writer_allocate_at_end_of_data");
            } else {
                probes_before_allocate(ctx, &w.m, before, *n, *ge);
            }
            let (got, after) = ctx.mila(api, || {
                let mut wr = BinArchiveWriter::new(&mut w.a, before);
                let g = wr.allocate(*n, *ge).map(|_| Val::Unit);
                (g, wr.tell())
            })?;
            // end-of-data dispatch: at the end of data the request is an append
            let want = if before == size0 {
                w.m.allocate_at_end(*n);
                Ok(Val::Unit)
            } else {
                w.m.allocate(before, *n, *ge).map(|_| Val::Unit)
            };
            let ok = cmp(ctx, owner, api, got, want, false)?;
            if after != before {
                return ctx.violation_for("C04", "cursor", "w.allocate|cursor", format!("allocate moved the cursor {:#x} -> {:#x}", before, after));
            }
            mutated_ok = ok;
            rejected = !ok;
            w.structural_since_cs |= ok;
        }
        Op::SAllocateAtEnd { n } => {
            let before = w.wpos;
            let after = ctx.mila(api, || {
                let mut wr = BinArchiveWriter::new(&mut w.a, before);
                wr.allocate_at_end(*n);
                wr.tell()
            })?;
            w.m.allocate_at_end(*n);
            ctx.outcome(api, "ok", "");
            if after != before {
                return ctx.violation_for("C04", "cursor", "w.allocate_at_end|cursor", format!("allocate_at_end moved the cursor {:#x} -> {:#x}", before, after));
            }
            mutated_ok = true;
            w.structural_since_cs = true;
        }
        Op::Sweep { high, write, pattern } => {
            sweep(ctx, w, *high, *write, *pattern)?;
        }
        Op::CheckCStrings => {
            check_cstrings(ctx, w)?;
            return Ok(());
        }
    }
    if mutated_ok {
        w.mutations_ok += 1;
    }
    if rejected {
        w.rejects += 1;
        ctx.fault("rejected_request");
        if let Some(before) = &image0 {
            if let Ok(Some(after)) = guarded(|| w.a.serialize().ok()) {
                if &after != before {
                    let at = (0..before.len().min(after.len())).find(|i| before[*i] != after[*i]).unwrap_or(before.len().min(after.len()));
                    return ctx.violation_for(
                        owner,
                        "state_after_op",
                        format!("{}|rejected_request_changed_the_image", api),
                        format!("{} was rejected, but the serialized archive changed: {} bytes before, {} bytes after, first difference at {:#x}", api, before.len(), after.len(), at),
                    );
                }
                ctx.probe("rejected_request_image_unchanged");
            }
        }
    }
    check_state(ctx, w, owner, api)?;
    ctx.state(w.m.state_hash());
    Ok(())
}

/// model of a NUL-terminated text read at the cursor. None = the bytes do not
/// decode cleanly (outside what is modelled); Some(Err) = runs off the data.
fn model_text_read(m: &ArchModel, pos: usize, utf16: bool) -> Option<Result<(String, usize), ()>> {
    let n = m.size();
    let mut p = pos;
    let mut raw: Vec<u8> = Vec::new();
    // text that begins with a byte-order mark is re-interpreted by the decoder
    // (BOM sniffing): that is C06's subject, not modelled here
    let bom = |raw: &[u8]| raw.starts_with(&[0xFF, 0xFE]) || raw.starts_with(&[0xFE, 0xFF]) || raw.starts_with(&[0xEF, 0xBB, 0xBF]);
    if !utf16 {
        loop {
            if p >= n {
                return Some(Err(()));
            }
            let b = m.data[p];
            p += 1;
            if b == 0 {
                break;
            }
            raw.push(b);
        }
        if bom(&raw) {
            return None;
        }
        let (s, _, bad) = encoding_rs::SHIFT_JIS.decode(&raw);
        if bad {
            return None;
        }
        let s = s.into_owned();
        while p % 4 != 0 {
            p += 1;
        }
        Some(Ok((s, p)))
    } else {
        loop {
            if p >= n || p + 1 >= n {
                return Some(Err(()));
            }
            let (b0, b1) = (m.data[p], m.data[p + 1]);
            p += 2;
            if b0 == 0 && b1 == 0 {
                break;
            }
            raw.push(b0);
            raw.push(b1);
        }
        if bom(&raw) {
            return None;
        }
        let units: Vec<u16> = raw.chunks(2).map(|c| u16::from_le_bytes([c[0], c[1]])).collect();
        match String::from_utf16(&units) {
            Ok(s) => {
                // a leading BOM is consumed by some decoders: not modelled
                if s.starts_with('\u{feff}') {
                    return None;
                }
                while p % 4 != 0 {
                    p += 1;
                }
                Some(Ok((s, p)))
            }
            Err(_) => None,
        }
    }
}

fn probes_before_allocate(ctx: &mut RunCtx, m: &ArchModel, a: usize, n: usize, ge: bool) {
    if a > m.size() || a % 4 != 0 || n % 4 != 0 || n == 0 {
        return;
    }
    if m.labels.get(&a).map(|b| !b.is_empty()).unwrap_or(false) {
        ctx.probe(if ge { "allocate_ge_at_labelled_address" } else { "allocate_gt_at_labelled_address" });
    }
    if m.pointers.values().any(|v| *v == a) {
        ctx.probe(if ge { "allocate_ge_at_pointer_target" } else { "allocate_gt_at_pointer_target" });
    }
    if m.labels.get(&m.size()).map(|b| !b.is_empty()).unwrap_or(false) {
        ctx.probe("allocate_with_label_at_end_address");
    }
    if m.cstrings.iter().any(|c| c.0 >= a) {
        ctx.probe("allocate_relocates_pending_cstring");
    }
    if m.text.keys().any(|k| *k == a) {
        ctx.probe("allocate_at_string_cell");
    }
}

fn probes_before_deallocate(ctx: &mut RunCtx, m: &ArchModel, a: usize, n: usize) {
    let end = match a.checked_add(n) {
        Some(e) => e,
        None => {
            ctx.probe("deallocate_address_plus_amount_overflows");
            return;
        }
    };
    if a >= m.size() || end > m.size() || a % 4 != 0 || n % 4 != 0 || n == 0 {
        return;
    }
    let inside = |x: usize| x >= a && x < end;
    if m.pointers.iter().any(|(k, v)| !inside(*k) && inside(*v)) {
        ctx.probe("deallocate_removes_pointer_by_destination");
    }
    if m.pointers.values().any(|v| *v == end) {
        ctx.probe("deallocate_pointer_target_at_range_end");
    }
    if m.labels.keys().any(|k| *k == end) {
        ctx.probe("deallocate_label_at_range_end");
    }
    if m.cstrings.iter().any(|c| inside(c.0)) {
        ctx.probe("deallocate_drops_pending_cstring");
    }
    if m.cstrings.iter().any(|c| c.0 >= end) {
        ctx.probe("deallocate_relocates_pending_cstring");
    }
}

/// C04 "exhaustively around the boundaries": every accessor, every width,
/// every address in size-8..=size+8 (or usize::MAX-8..=usize::MAX).
fn sweep(ctx: &mut RunCtx, w: &mut World, high: bool, write: bool, pattern: u32) -> Step<()> {
    let size = w.m.size();
    let addrs: Vec<usize> = if high {
        (0..=8).map(|k| usize::MAX - k).collect()
    } else {
        (size.saturating_sub(8)..=size + 8).collect()
    };
    let mut n_ok = 0;
    let mut n_err = 0;
    for a in addrs {
        for ty in Ty::ALL {
            let api = if write { "sweep.write" } else { "sweep.read" };
            let (got, want) = if write {
                let bits = pattern.rotate_left((a % 32) as u32) ^ (ty.width() as u32);
                let got = ctx.mila(api, || typed_write(&mut w.a, ty, a, bits))?;
                (got, w.m.write_uint(a, ty.width(), mask(ty, bits)).map(|_| Val::Unit))
            } else {
                let got = ctx.mila(api, || typed_read(&w.a, ty, a))?;
                (got, w.m.read_uint(a, ty.width()).map(Val::Bits))
            };
            let g: Result<Val, ErrKind> = got.map_err(|e| cls(&e));
            if g != want {
                return ctx.violation_for(
                    "C04",
                    "return_value",
                    format!("{}|{}", api, match (&g, &want) { (Ok(_), Err(_)) => "accepted_invalid_request", (Err(_), Ok(_)) => "rejected_valid_request", (Ok(_), Ok(_)) => "wrong_value", _ => "wrong_error_kind" }),
                    format!("{} {:?} at {:#x} (size {:#x}): mila {}, model {}", api, ty, a, size, show(&g), show(&want)),
                );
            }
            if g.is_ok() {
                n_ok += 1
            } else {
                n_err += 1
            }
        }
        // byte ranges and annotation accessors at the same address
        for n in [1usize, 2, 3, 4, 5, 8, usize::MAX - a.min(usize::MAX), usize::MAX] {
            if n == 0 {
                continue;
            }
            let got = ctx.mila("sweep.read_bytes", || w.a.read_bytes(a, n).map(|b| Val::Bytes(b.to_vec())))?;
            let g: Result<Val, ErrKind> = got.map_err(|e| cls(&e));
            let want = w.m.read_bytes(a, n).map(Val::Bytes);
            if g != want {
                return ctx.violation_for(
                    "C04",
                    "return_value",
                    format!("sweep.read_bytes|{}", if g.is_ok() { "accepted_invalid_request" } else { "rejected_valid_request" }),
                    format!("read_bytes({:#x},{:#x}) size {:#x}: mila {}, model {}", a, n, size, show(&g), show(&want)),
                );
            }
        }
        let got = ctx.mila("sweep.read_string", || w.a.read_string(a).map(Val::OptS))?.map_err(|e| cls(&e));
        let want = w.m.read_string(a).map(Val::OptS);
        let got2 = ctx.mila("sweep.read_pointer", || w.a.read_pointer(a).map(Val::OptU))?.map_err(|e| cls(&e));
        let want2 = w.m.read_pointer(a).map(Val::OptU);
        let got3 = ctx.mila("sweep.read_labels", || w.a.read_labels(a).map(|l| Val::OptV(norm_labels(l))))?.map_err(|e| cls(&e));
        let want3 = w.m.read_labels(a).map(|l| Val::OptV(norm_labels(l)));
        if got != want || got2 != want2 || got3 != want3 {
            return ctx.violation_for(
                "C04",
                "return_value",
                "sweep.annotation|mismatch".to_string(),
                format!(
                    "annotation reads at {:#x} (size {:#x}): string {} vs {}, pointer {} vs {}, labels {} vs {}",
                    a, size, show(&got), show(&want), show(&got2), show(&want2), show(&got3), show(&want3)
                ),
            );
        }
    }
    ctx.outcome("sweep", if write { "write" } else { "read" }, &format!("{}ok/{}err", n_ok, n_err));
    ctx.probe(if high { "sweep_at_integer_limit" } else { "sweep_at_end_of_data" });
    Ok(())
}

fn check_cstrings(ctx: &mut RunCtx, w: &mut World) -> Step<()> {
    let api = "check_cstrings";
    ctx.owner = if w.structural_since_cs { "C03" } else { "C01" }.to_string();
    if !w.m.cells_disjoint() {
        ctx.outcome(api, "skipped", "annotated cells overlap");
        return Ok(());
    }
    // who is responsible if the pending c-strings are wrong
    let owner = if w.structural_since_cs { "C03" } else { "C01" };
    let bytes = ctx.mila("serialize", || w.a.serialize())?;
    let big = w.m.big;
    let size = w.m.size();
    // the pool appended to the data holds every distinct pending text once (padded to a cell):
    // text whose cells were all removed must not linger
    let mut distinct: Vec<&String> = w.m.cstrings.iter().map(|c| &c.1).collect();
    distinct.sort();
    distinct.dedup();
    let pool_len: usize = distinct.iter().map(|s| bin_image::sjis_encode(s).map(|b| b.len()).unwrap_or(0) + 1).sum();
    let pool_len = (pool_len + 3) / 4 * 4;
    let result: Result<Vec<(usize, String)>, String> = match &bytes {
        Err(e) => Err(format!("serialize failed: {}", e)),
        Ok(b) => match bin_image::parse_image(b, big) {
            Err(e) => Err(format!("image unreadable: {}", e)),
            Ok(img) => {
                if img.data_size != size + pool_len {
                    Err(format!("the image's data region is {} bytes: {} bytes of data + a {}-byte pool, but the pending c-strings need a {}-byte pool", img.data_size, size, img.data_size as i64 - size as i64, pool_len))
                } else {
                    img.cstring_entries(size, big, &|src| w.m.pointers.contains_key(&src) || w.m.text.contains_key(&src))
                }
            }
        },
    };
    let mut want: Vec<(usize, String)> = w.m.cstrings.clone();
    want.sort();
    ctx.outcome(api, if result.is_ok() { "ok" } else { "err" }, &format!("{:?}", result));
    match result {
        Ok(got) => {
            if got != want {
                return ctx.violation_for(
                    owner,
                    "pending_cstrings",
                    "check_cstrings|mismatch".to_string(),
                    format!("c-string pointer entries in the serialized image {:?}, model {:?}", got, want),
                );
            }
            if !want.is_empty() {
                ctx.probe("cstrings_verified_nonempty");
            }
        }
        Err(e) => {
            return ctx.violation_for(
                owner,
                "pending_cstrings",
                "check_cstrings|unreadable".to_string(),
                format!("{} (model c-strings {:?})", e, want),
            );
        }
    }
    w.structural_since_cs = false;
    Ok(())
}

fn run(cfg: &Value, ctx: &mut RunCtx) -> Step<()> {
    let big = cfg["big"].as_bool().unwrap_or(false);
    ctx.max_ops = cfg["max_ops"].as_u64().unwrap_or(40) as usize;
    let prop = ctx.prop.clone();
    let max_size = cfg["max_size"].as_u64().unwrap_or(96) as usize;
    let swarm: Vec<u32> = cfg["swarm"].as_array().map(|a| a.iter().map(|x| x.as_u64().unwrap_or(1) as u32).collect()).unwrap_or_else(|| vec![1; 11]);
    let mut w = World {
        a: BinArchive::new(endian(big)),
        m: ArchModel::new(big),
        rpos: 0,
        wpos: 0,
        structural_since_cs: false,
        mutations_ok: 0,
        rejects: 0,
    };
    let mut rng = Rng::sub(ctx.run_seed, "ops");
    loop {
        let op = ctx.next_op(|_c| Some(gen_op(&mut rng, &w, &prop, max_size, &swarm)))?;
        let op: Op = match op {
            Some(o) => o,
            None => break,
        };
        let r = exec(ctx, &mut w, &op);
        match r {
            Ok(()) => {}
            Err(Stop::Violation(v)) => {
                if v.property != prop {
                    // governed by another property's statement: that property's
                    // check reports it; this run cannot continue (model out of sync)
                    ctx.probe(&format!("foreign_violation_{}", v.property));
                    break;
                }
                return Err(Stop::Violation(v));
            }
            Err(e) => return Err(e),
        }
    }
    // close every run with a c-string verification
    if !ctx.is_replay() || true {
        let r = check_cstrings(ctx, &mut w);
        match r {
            Ok(()) => {}
            Err(Stop::Violation(v)) => {
                if v.property == prop {
                    return Err(Stop::Violation(v));
                }
                ctx.probe(&format!("foreign_violation_{}", v.property));
            }
            Err(e) => return Err(e),
        }
    }
    ctx.nontrivial = w.mutations_ok >= 3 && w.rejects >= 1;
    Ok(())
}

// ---------------------------------------------------------------------------
// shrinking

fn shrink_op(op: &Value) -> Vec<Value> {
    let mut out = Vec::new();
    let parsed: Op = match serde_json::from_value(op.clone()) {
        Ok(o) => o,
        Err(_) => return out,
    };
    let mut push = |o: Op| out.push(serde_json::to_value(o).unwrap());
    match parsed {
        Op::AllocateAtEnd { n } if n > 4 => {
            push(Op::AllocateAtEnd { n: 4 });
            push(Op::AllocateAtEnd { n: n - 4 });
        }
        Op::Allocate { a, n, ge } => {
            if n > 4 {
                push(Op::Allocate { a, n: 4, ge });
            }
            if a >= 4 {
                push(Op::Allocate { a: a - 4, n, ge });
                push(Op::Allocate { a: 0, n, ge });
            }
        }
        Op::Deallocate { a, n, ge } => {
            if n > 4 && n < (1 << 20) {
                push(Op::Deallocate { a, n: 4, ge });
            }
            if a >= 4 && a < (1 << 20) {
                push(Op::Deallocate { a: a - 4, n, ge });
            }
        }
        Op::WriteLabels { a, v } if v.len() > 1 => push(Op::WriteLabels { a, v: v[..1].to_vec() }),
        Op::WriteString { a, s: Some(s) } if s != "A" => push(Op::WriteString { a, s: Some("A".into()) }),
        Op::WriteLabel { a, s } if s != "A" => push(Op::WriteLabel { a, s: "A".into() }),
        Op::WriteCString { a, s } if s != "A" => push(Op::WriteCString { a, s: "A".into() }),
        Op::WriteBytes { a, data } if data.len() > 1 => push(Op::WriteBytes { a, data: data[..1].to_vec() }),
        Op::SWriteBytes { data } if data.len() > 1 => push(Op::SWriteBytes { data: data[..data.len() - 1].to_vec() }),
        Op::Write { ty, a, bits } if bits != 1 => push(Op::Write { ty, a, bits: 1 }),
        Op::SWrite { ty, bits } if bits != 1 => push(Op::SWrite { ty, bits: 1 }),
        _ => {}
    }
    out
}
