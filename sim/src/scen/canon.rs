//! Scenario `canon` (C02): hash states x build histories x persist/reload.
//!
//! 3-6 builder clients each construct an archive by a different seeded history
//! (permuted calls, detours that cancel, clones through parse, round trips
//! through the simulated disk). The scheduler interleaves their steps; every
//! hash map any of them creates draws its key from the run's hash stream, so
//! every builder - and every rebuild inside allocate/deallocate - iterates in
//! a different order. Builders whose *model* content is equal must serialize
//! to identical bytes, and every image must be the canonical image of its
//! content.

use crate::core::*;
use crate::model::arch_model::ArchModel;
use crate::model::bin_image::{self, Content};
use crate::rng::Rng;
use crate::scen::ScenDef;
use mila::{BinArchive, Endian, Game, Language, LayeredFilesystem};
use serde::{Deserialize, Serialize};
use serde_json::{json, Value};
use std::collections::BTreeMap;

pub static DEF: ScenDef = ScenDef {
    name: "canon",
    props: &["C02"],
    budget,
    gen_cfg,
    run,
    shrink_cfg,
    shrink_op: crate::scen::no_shrink,
    worker_init: crate::scen::no_init,
    crash_owner: crate::scen::crash_is_ours,
};

fn budget(_prop: &str, tier: Tier) -> u64 {
    match tier {
        Tier::Quick => 150_000,
        Tier::Thorough => 4_000_000,
    }
}

#[derive(Serialize, Deserialize, Clone, Debug, PartialEq)]
#[serde(tag = "c")]
pub enum Call {
    AllocEnd { n: usize },
    WriteBytes { a: usize, #[serde(with = "hexser")] data: Vec<u8> },
    WriteString { a: usize, s: String },
    DeleteString { a: usize },
    WritePointer { a: usize, v: usize },
    DeletePointer { a: usize },
    WriteLabel { a: usize, s: String },
    WriteLabels { a: usize, v: Vec<String> },
    DeleteLabel { a: usize, i: usize },
    DeleteLabels { a: usize },
    Allocate { a: usize, n: usize, ge: bool },
    Deallocate { a: usize, n: usize },
    /// replace this builder's archive by parse(serialize(builder `from`))
    CloneFrom { from: usize },
    /// persist through fs.write_archive and reload with fs.read_archive
    DiskRoundTrip { compressed: bool },
}

#[derive(Serialize, Deserialize, Clone, Debug, PartialEq)]
pub struct Op {
    /// builder index; usize::MAX-free: the final comparison is op "check"
    pub b: usize,
    pub call: Option<Call>,
    /// perform the call through a BinArchiveWriter attached at the address (another route to the same content)
    #[serde(default)]
    pub via_stream: bool,
}

// "MID_Ａ" / "MID_ア": code-point order and Shift-JIS byte order disagree for this pair
const POOL: &[&str] = &["X", "Y", "Count", "名前", "", "x y", "ｱ", "Info", "MID_Ａ", "MID_ア"];

fn gen_cfg(_prop: &str, tier: Tier, run_seed: u64) -> Value {
    let mut r = Rng::sub(run_seed, "cfg");
    let hi = if tier == Tier::Thorough { 8 } else { 6 };
    json!({ "big": r.chance(1, 2), "builders": r.range(3, hi) })
}

fn shrink_cfg(cfg: &Value) -> Vec<Value> {
    let mut out = Vec::new();
    if let Some(b) = cfg["builders"].as_u64() {
        if b > 2 {
            let mut c = cfg.clone();
            c["builders"] = json!(b - 1);
            out.push(c);
        }
    }
    out
}

/// a content in which the second label's name starts exactly text_start bytes into the text
/// section, i.e. its text offset equals the pointer value of the first string cell
fn gen_alias_corner(r: &mut Rng, big: bool) -> Content {
    let cells = r.range(1, 3);
    let mut c = Content { big, data: r.bytes(cells * 4), ..Default::default() };
    // one string cell, two labels: text_start = data + 4 * 1 + 8 * 2
    let text_start = cells * 4 + 4 + 16;
    let filler: String = (0..text_start - 1).map(|i| (b'a' + (i % 26) as u8) as char).collect();
    c.text.insert(0, filler.clone());
    c.labels.insert(0, vec![filler]);
    c.labels.insert(if cells > 1 { 4 } else { cells * 4 }, vec![r.pick(&["Z", "Count", "Y"]).to_string()]);
    c
}

fn gen_content(r: &mut Rng, big: bool) -> Content {
    if r.chance(1, 24) {
        return gen_alias_corner(r, big);
    }
    let len = match r.weighted(&[70, 20, 10]) {
        0 => r.range(1, 12) * 4,
        1 => r.range(0, 50),
        _ => 0,
    };
    let mut c = Content { big, data: r.bytes(len), ..Default::default() };
    let cells = len / 4;
    let nstr = r.range(2, 5);
    let strs: Vec<&str> = (0..nstr).map(|_| *r.pick(POOL)).collect();
    for i in 0..cells {
        match r.weighted(&[55, 25, 20]) {
            0 => {}
            1 => {
                c.text.insert(i * 4, strs[r.below(strs.len())].to_string());
            }
            _ => {
                let v = if r.chance(4, 5) { r.below(cells + 1) * 4 } else { r.below(len + 1) };
                c.pointers.insert(i * 4, v);
            }
        }
    }
    // mostly a handful of labels; one content in 16 has a large table (sorting algorithms change
    // behaviour with size) with several labels on most addresses
    let many = r.chance(1, 16);
    let nlab = if many { r.range(40, 120) } else { r.range(0, 8) };
    let names: Vec<&str> = (0..r.range(1, 4)).map(|_| *r.pick(POOL)).collect();
    for _ in 0..nlab {
        let a = match r.weighted(&[65, 15, 10, 10]) {
            0 => r.below(cells + 1) * 4,
            1 => len,
            2 => r.below(len + 1),
            _ => {
                // pile onto an address that already has a label
                match c.labels.keys().next() {
                    Some(k) => *k,
                    None => 0,
                }
            }
        };
        let name = if r.chance(2, 3) { names[r.below(names.len())] } else { *r.pick(POOL) };
        if many {
            // distinct names, so that any reordering inside a bucket is visible
            let serial: usize = c.labels.values().map(|v| v.len()).sum();
            c.labels.entry(a).or_default().push(format!("{}{}", name, serial));
        } else {
            c.labels.entry(a).or_default().push(name.to_string());
        }
    }
    c
}

/// plan one builder's history that ends in content `t` (tracked on a model so
/// that label indices and shifted addresses are right)
fn plan_builder(r: &mut Rng, t: &Content) -> Vec<Call> {
    let mut calls: Vec<Call> = Vec::new();
    let len = t.data.len();
    // 1. size, in pieces
    let mut rest = len;
    while rest > 0 {
        let n = if r.chance(1, 2) { rest } else { r.range(1, rest) };
        calls.push(Call::AllocEnd { n });
        rest -= n;
    }
    // 2. required calls, to be permuted (per-address label order kept)
    #[derive(Clone)]
    enum Need {
        Bytes(usize, usize),
        Str(usize),
        Ptr(usize),
        Lab(usize),
    }
    let mut needs: Vec<Need> = Vec::new();
    let mut off = 0;
    while off < len {
        let n = if r.chance(1, 2) { len - off } else { r.range(1, len - off) };
        needs.push(Need::Bytes(off, n));
        off += n;
    }
    for a in t.text.keys() {
        needs.push(Need::Str(*a));
    }
    for a in t.pointers.keys() {
        needs.push(Need::Ptr(*a));
    }
    for a in t.labels.keys() {
        needs.push(Need::Lab(*a));
    }
    r.shuffle(&mut needs);
    for need in needs {
        // detours that cancel
        if r.chance(1, 6) && len >= 4 {
            let a = r.below(len / 4) * 4;
            if !t.text.contains_key(&a) && !t.pointers.contains_key(&a) {
                if r.chance(1, 2) {
                    calls.push(Call::WriteString { a, s: r.pick(POOL).to_string() });
                    calls.push(Call::DeleteString { a });
                } else {
                    calls.push(Call::WritePointer { a, v: r.below(len / 4 + 1) * 4 });
                    calls.push(Call::DeletePointer { a });
                }
            }
        }
        if r.chance(1, 8) && len >= 4 {
            let a = r.below(len / 4 + 1) * 4;
            let n = r.range(1, 3) * 4;
            calls.push(Call::Allocate { a, n, ge: true });
            calls.push(Call::Deallocate { a, n });
        }
        match need {
            Need::Bytes(a, n) => calls.push(Call::WriteBytes { a, data: t.data[a..a + n].to_vec() }),
            Need::Str(a) => {
                if r.chance(1, 4) {
                    calls.push(Call::WriteString { a, s: r.pick(POOL).to_string() });
                }
                calls.push(Call::WriteString { a, s: t.text[&a].clone() });
            }
            Need::Ptr(a) => {
                if r.chance(1, 4) {
                    calls.push(Call::WritePointer { a, v: 0 });
                }
                calls.push(Call::WritePointer { a, v: t.pointers[&a] });
            }
            Need::Lab(a) => {
                let v = &t.labels[&a];
                match r.weighted(&[50, 25, 25]) {
                    0 => {
                        for s in v {
                            calls.push(Call::WriteLabel { a, s: s.clone() });
                        }
                    }
                    1 => {
                        if r.chance(1, 2) {
                            calls.push(Call::WriteLabel { a, s: "junk".into() });
                        }
                        calls.push(Call::WriteLabels { a, v: v.clone() });
                    }
                    _ => {
                        // add, append junk, delete the junk again, keeping the final order
                        for (i, s) in v.iter().enumerate() {
                            calls.push(Call::WriteLabel { a, s: s.clone() });
                            if r.chance(1, 3) {
                                calls.push(Call::WriteLabel { a, s: "junk".into() });
                                calls.push(Call::DeleteLabel { a, i: i + 1 });
                            }
                        }
                    }
                }
            }
        }
    }
    calls
}

fn plan(r: &mut Rng, big: bool, builders: usize) -> Vec<Op> {
    let t = gen_content(r, big);
    let mut queues: Vec<Vec<Call>> = Vec::new();
    for b in 0..builders {
        if b >= 2 && r.chance(1, 4) {
            // a late builder that only clones an earlier one (after that one is complete)
            queues.push(vec![Call::CloneFrom { from: r.below(b) }]);
        } else {
            let mut q = plan_builder(r, &t);
            if r.chance(1, 4) {
                q.push(Call::DiskRoundTrip { compressed: r.chance(1, 2) });
            }
            queues.push(q);
        }
    }
    // the scheduler interleaves the builders' steps; clone-only builders wait
    // for their source to finish
    let mut pos = vec![0usize; builders];
    let mut ops = Vec::new();
    loop {
        let ready: Vec<usize> = (0..builders)
            .filter(|b| pos[*b] < queues[*b].len())
            .filter(|b| match &queues[*b][pos[*b]] {
                Call::CloneFrom { from } => pos[*from] >= queues[*from].len(),
                _ => true,
            })
            .collect();
        if ready.is_empty() {
            break;
        }
        let b = ready[r.below(ready.len())];
        // bursts make the interleaving coarse sometimes, fine sometimes
        let burst = if r.chance(1, 3) { r.range(1, 6) } else { 1 };
        for _ in 0..burst {
            if pos[b] >= queues[b].len() {
                break;
            }
            if let Call::CloneFrom { from } = &queues[b][pos[b]] {
                if pos[*from] < queues[*from].len() {
                    break;
                }
            }
            ops.push(Op { b, call: Some(queues[b][pos[b]].clone()), via_stream: r.chance(1, 3) });
            pos[b] += 1;
        }
    }
    ops.push(Op { b: 0, call: None, via_stream: false });
    ops
}

struct Builder {
    a: BinArchive,
    m: ArchModel,
    /// model and archive may have diverged for reasons that are another
    /// property's business (C03/C04): excluded from the comparison
    valid: bool,
}

fn endian(big: bool) -> Endian {
    if big {
        Endian::Big
    } else {
        Endian::Little
    }
}

fn content_of(m: &ArchModel) -> Content {
    Content {
        big: m.big,
        data: m.data.clone(),
        text: m.text.clone(),
        pointers: m.pointers.clone(),
        labels: m.labels.iter().filter(|(_, v)| !v.is_empty()).map(|(k, v)| (*k, v.clone())).collect(),
    }
}

/// C01/C02 content domain: one annotation per aligned cell, pointer targets
/// <= size, labels <= size, NUL-free losslessly representable strings
fn in_domain(c: &Content) -> bool {
    let n = c.data.len();
    let cell_ok = |a: &usize| *a % 4 == 0 && *a + 4 <= n;
    c.text.keys().all(cell_ok)
        && c.pointers.keys().all(cell_ok)
        && c.text.keys().all(|k| !c.pointers.contains_key(k))
        && c.pointers.values().all(|v| *v <= n)
        && c.labels.keys().all(|a| *a <= n)
        && c.text.values().all(|s| bin_image::sjis_lossless(s))
        && c.labels.values().all(|v| v.iter().all(|s| bin_image::sjis_lossless(s)))
}

fn apply(ctx: &mut RunCtx, b: &mut Builder, call: &Call, via_stream: bool) -> Step<()> {
    let a = &mut b.a;
    let m = &mut b.m;
    if via_stream {
        // the stream writer's route to the same calls
        use mila::BinArchiveWriter;
        let routed: Option<(bool, bool)> = match call {
            Call::WriteBytes { a: addr, data } if !data.is_empty() => Some((
                ctx.mila("w.write_bytes", || BinArchiveWriter::new(a, *addr).write_bytes(data).is_ok())?,
                m.write_bytes(*addr, data).is_ok(),
            )),
            Call::WriteString { a: addr, s } => Some((
                ctx.mila("w.write_string", || BinArchiveWriter::new(a, *addr).write_string(Some(s)).is_ok())?,
                m.write_string(*addr, Some(s)).is_ok(),
            )),
            Call::WritePointer { a: addr, v } => Some((
                ctx.mila("w.write_pointer", || BinArchiveWriter::new(a, *addr).write_pointer(Some(*v)).is_ok())?,
                m.write_pointer(*addr, Some(*v)).is_ok(),
            )),
            Call::DeleteString { a: addr } => Some((
                ctx.mila("w.write_string", || BinArchiveWriter::new(a, *addr).write_string(None).is_ok())?,
                m.write_string(*addr, None).is_ok(),
            )),
            Call::DeletePointer { a: addr } => Some((
                ctx.mila("w.write_pointer", || BinArchiveWriter::new(a, *addr).write_pointer(None).is_ok())?,
                m.write_pointer(*addr, None).is_ok(),
            )),
            Call::WriteLabel { a: addr, s } => Some((
                ctx.mila("w.write_label", || BinArchiveWriter::new(a, *addr).write_label(s).is_ok())?,
                m.write_label(*addr, s).is_ok(),
            )),
            Call::AllocEnd { n } => {
                ctx.mila("w.allocate_at_end", || BinArchiveWriter::new(a, 0).allocate_at_end(*n))?;
                m.allocate_at_end(*n);
                Some((true, true))
            }
            _ => None,
        };
        if let Some((got, want)) = routed {
            if got != want {
                b.valid = false;
                ctx.probe("foreign_accept_reject_disagreement");
            }
            ctx.probe("call_routed_through_stream_writer");
            return Ok(());
        }
    }
    let (got, want): (bool, bool) = match call {
        Call::AllocEnd { n } => {
            ctx.mila("allocate_at_end", || a.allocate_at_end(*n))?;
            m.allocate_at_end(*n);
            (true, true)
        }
        Call::WriteBytes { a: addr, data } => {
            if data.is_empty() {
                (true, true)
            } else {
                (ctx.mila("write_bytes", || a.write_bytes(*addr, data).is_ok())?, m.write_bytes(*addr, data).is_ok())
            }
        }
        Call::WriteString { a: addr, s } => (
            ctx.mila("write_string", || a.write_string(*addr, Some(s)).is_ok())?,
            m.write_string(*addr, Some(s)).is_ok(),
        ),
        Call::DeleteString { a: addr } => (ctx.mila("delete_string", || a.delete_string(*addr).is_ok())?, m.write_string(*addr, None).is_ok()),
        Call::WritePointer { a: addr, v } => (
            ctx.mila("write_pointer", || a.write_pointer(*addr, Some(*v)).is_ok())?,
            m.write_pointer(*addr, Some(*v)).is_ok(),
        ),
        Call::DeletePointer { a: addr } => (ctx.mila("delete_pointer", || a.delete_pointer(*addr).is_ok())?, m.write_pointer(*addr, None).is_ok()),
        Call::WriteLabel { a: addr, s } => (ctx.mila("write_label", || a.write_label(*addr, s).is_ok())?, m.write_label(*addr, s).is_ok()),
        Call::WriteLabels { a: addr, v } => (
            ctx.mila("write_labels", || a.write_labels(*addr, v.clone()).is_ok())?,
            m.write_labels(*addr, v.clone()).is_ok(),
        ),
        Call::DeleteLabel { a: addr, i } => (ctx.mila("delete_label", || a.delete_label(*addr, *i).is_ok())?, m.delete_label(*addr, *i).is_ok()),
        Call::DeleteLabels { a: addr } => (ctx.mila("delete_labels", || a.delete_labels(*addr).is_ok())?, m.delete_labels(*addr).is_ok()),
        Call::Allocate { a: addr, n, ge } => (ctx.mila("allocate", || a.allocate(*addr, *n, *ge).is_ok())?, m.allocate(*addr, *n, *ge).is_ok()),
        Call::Deallocate { a: addr, n } => (ctx.mila("deallocate", || a.deallocate(*addr, *n, false).is_ok())?, m.deallocate(*addr, *n).is_ok()),
        Call::CloneFrom { .. } | Call::DiskRoundTrip { .. } => unreachable!(),
    };
    if got != want {
        // accept/reject disagreements are C03/C04's subject
        b.valid = false;
        ctx.probe("foreign_accept_reject_disagreement");
    }
    Ok(())
}

/// The image must be the canonical image of `c`. The label-table order is
/// taken from the image itself and verified against the ordering rule, so a
/// different but deterministic tie-break among equal big-endian names is not
/// an alarm; everything else is compared byte for byte with the reference writer.
fn check_canonical(ctx: &mut RunCtx, c: &Content, bytes: &[u8], who: usize) -> Step<()> {
    let big = c.big;
    let img = match bin_image::parse_image(bytes, big) {
        Ok(i) => i,
        Err(e) => return ctx.violation("canonical_image", "image|unreadable", format!("builder {}: {}", who, e)),
    };
    if img.file_size_field as usize != bytes.len() || !img.header_rest_zero {
        return ctx.violation(
            "canonical_image",
            "image|header_totals",
            format!("builder {}: header file size {} vs {} bytes, reserved zero: {}", who, img.file_size_field, bytes.len(), img.header_rest_zero),
        );
    }
    // label table: entries (address, name) in table order
    let mut entries: Vec<(usize, String)> = Vec::new();
    for (addr, off) in &img.label_table {
        match bin_image::cstr_at(&img.text_pool, *off as usize) {
            Some(raw) => entries.push((*addr as usize, bin_image::sjis_decode(raw))),
            None => return ctx.violation("canonical_image", "image|label_name_outside_pool", format!("builder {}: label name offset {:#x} outside the text pool", who, off)),
        }
    }
    // multiset + per-address order
    let mut per_addr: BTreeMap<usize, Vec<String>> = BTreeMap::new();
    for (a, s) in &entries {
        per_addr.entry(*a).or_default().push(s.clone());
    }
    if per_addr != c.labels {
        return ctx.violation(
            "canonical_image",
            "image|labels_content",
            format!("builder {}: labels in the image (per address, in table order) {:?}, content {:?}", who, per_addr, c.labels),
        );
    }
    if !big {
        if entries.windows(2).any(|w| w[0].0 > w[1].0) {
            return ctx.violation("canonical_image", "image|label_order_le", format!("builder {}: little-endian label table not ordered by address: {:?}", who, entries));
        }
    } else if c.labels.values().all(|v| v.len() == 1) {
        // ordered by name; the order among equal names is not fixed by the statement
        if entries.windows(2).any(|w| w[0].1 > w[1].1) {
            return ctx.violation("canonical_image", "image|label_order_be", format!("builder {}: big-endian label table not ordered by name: {:?}", who, entries));
        }
        ctx.probe("be_label_order_checked");
    } else {
        // several labels on one address in a big-endian archive: buckets stay
        // contiguous and keep their order; how buckets compare is not stated
        let mut seen: Vec<usize> = Vec::new();
        for (a, _) in &entries {
            if seen.last() != Some(a) {
                if seen.contains(a) {
                    return ctx.violation("canonical_image", "image|label_bucket_split", format!("builder {}: labels of address {:#x} are not contiguous: {:?}", who, a, entries));
                }
                seen.push(*a);
            }
        }
    }
    // canonical image with this label order
    let want = match canonical_with_label_order(c, &entries) {
        Some(w) => w,
        None => return harness("reference writer failed on in-domain content"),
    };
    if want != bytes {
        let i = (0..want.len().min(bytes.len())).find(|i| want[*i] != bytes[*i]).unwrap_or(want.len().min(bytes.len()));
        let region = if i < 0x20 {
            "header"
        } else if i < 0x20 + img.data_size {
            "data"
        } else if i < 0x20 + img.data_size + img.pointer_count * 4 {
            "pointer_table"
        } else if i < 0x20 + img.text_start_rel {
            "label_table"
        } else {
            "text_pool"
        };
        return ctx.violation(
            "canonical_image",
            format!("image|differs_in_{}", region),
            format!(
                "builder {}: image differs from the canonical image at file offset {:#x} ({}): mila {} bytes {}, reference {} bytes {}",
                who,
                i,
                region,
                bytes.len(),
                hex(bytes),
                want.len(),
                hex(&want)
            ),
        );
    }
    Ok(())
}

fn canonical_with_label_order(c: &Content, entries: &[(usize, String)]) -> Option<Vec<u8>> {
    // same as bin_image::canonical_image, but with the label table order given
    let big = c.big;
    let mut data = c.data.clone();
    let mut ptr_table: Vec<u32> = Vec::new();
    for (src, dst) in &c.pointers {
        data.get_mut(*src..*src + 4)?.copy_from_slice(&bin_image::wr32(*dst as u32, big));
        ptr_table.push(*src as u32);
    }
    let mut pool: Vec<u8> = Vec::new();
    let mut offsets: BTreeMap<String, usize> = BTreeMap::new();
    let mut add = |pool: &mut Vec<u8>, s: &String| -> Option<usize> {
        if let Some(o) = offsets.get(s) {
            return Some(*o);
        }
        let o = pool.len();
        pool.extend(bin_image::sjis_encode(s)?);
        pool.push(0);
        offsets.insert(s.clone(), o);
        Some(o)
    };
    let mut label_table: Vec<u8> = Vec::new();
    for (a, s) in entries {
        let o = add(&mut pool, s)?;
        label_table.extend_from_slice(&bin_image::wr32(*a as u32, big));
        label_table.extend_from_slice(&bin_image::wr32(o as u32, big));
    }
    let text_start = c.data.len() + (c.pointers.len() + c.text.len()) * 4 + entries.len() * 8;
    let mut groups: Vec<(usize, Vec<u32>)> = Vec::new();
    for (addr, s) in &c.text {
        let o = add(&mut pool, s)?;
        data.get_mut(*addr..*addr + 4)?.copy_from_slice(&bin_image::wr32((text_start + o) as u32, big));
        match groups.iter_mut().find(|g| g.0 == o) {
            Some(g) => g.1.push(*addr as u32),
            None => groups.push((o, vec![*addr as u32])),
        }
    }
    for g in &mut groups {
        g.1.sort();
        ptr_table.extend(g.1.iter());
    }
    let file_size = 0x20 + data.len() + ptr_table.len() * 4 + label_table.len() + pool.len();
    let mut out = Vec::with_capacity(file_size);
    out.extend_from_slice(&bin_image::wr32(file_size as u32, big));
    out.extend_from_slice(&bin_image::wr32(data.len() as u32, big));
    out.extend_from_slice(&bin_image::wr32(ptr_table.len() as u32, big));
    out.extend_from_slice(&bin_image::wr32(entries.len() as u32, big));
    out.resize(0x20, 0);
    out.extend_from_slice(&data);
    for p in &ptr_table {
        out.extend_from_slice(&bin_image::wr32(*p, big));
    }
    out.extend_from_slice(&label_table);
    out.extend_from_slice(&pool);
    Some(out)
}

fn final_check(ctx: &mut RunCtx, builders: &mut [Builder], big: bool) -> Step<()> {
    let mut images: Vec<Option<(Content, Vec<u8>)>> = Vec::new();
    for (i, b) in builders.iter().enumerate() {
        if !b.valid {
            images.push(None);
            continue;
        }
        let c = content_of(&b.m);
        if !in_domain(&c) {
            ctx.probe("content_outside_domain_skipped");
            images.push(None);
            continue;
        }
        let s1 = ctx.mila("serialize", || b.a.serialize())?;
        let s2 = ctx.mila("serialize", || b.a.serialize())?;
        let (s1, s2) = match (s1, s2) {
            (Ok(a), Ok(b)) => (a, b),
            (e1, e2) => {
                return ctx.violation(
                    "serialize_ok",
                    "serialize|error",
                    format!("builder {}: serialize failed on in-domain content: {:?} / {:?}", i, e1.err().map(|e| e.to_string()), e2.err().map(|e| e.to_string())),
                )
            }
        };
        if s1 != s2 {
            return ctx.violation("deterministic", "serialize|repeated_call_differs", format!("builder {}: two serializations of the same archive differ: {} vs {}", i, hex(&s1), hex(&s2)));
        }
        images.push(Some((c, s1)));
    }
    // equal content => identical bytes, whatever the history and hash state
    let mut groups = 0;
    for i in 0..images.len() {
        for j in (i + 1)..images.len() {
            if let (Some((ci, bi)), Some((cj, bj))) = (&images[i], &images[j]) {
                if ci == cj {
                    groups += 1;
                    if bi != bj {
                        let tie = big && {
                            let names: Vec<&String> = ci.labels.values().flatten().collect();
                            let mut d = names.clone();
                            d.sort();
                            d.dedup();
                            d.len() != names.len()
                        };
                        return ctx.violation(
                            "history_independent",
                            if tie { "serialize|equal_content_differs_be_name_tie" } else { "serialize|equal_content_differs" },
                            format!("builders {} and {} hold equal content but serialize differently:\n {}\n {}", i, j, hex(bi), hex(bj)),
                        );
                    }
                }
            }
        }
    }
    if groups > 0 {
        ctx.probe("pairs_of_builders_with_equal_content");
    }
    for (i, im) in images.iter().enumerate() {
        if let Some((c, bytes)) = im {
            check_canonical(ctx, c, bytes, i)?;
            // parse then re-serialize reproduces a canonical file byte for byte
            let re = ctx.mila("from_bytes+serialize", || BinArchive::from_bytes(bytes, endian(big)).and_then(|a| a.serialize()))?;
            match re {
                Ok(b2) => {
                    if &b2 != bytes {
                        return ctx.violation(
                            "byte_stable",
                            "reparse|reserialize_differs",
                            format!("builder {}: serialize(from_bytes(image)) differs from the image:\n {}\n {}", i, hex(bytes), hex(&b2)),
                        );
                    }
                }
                Err(e) => {
                    return ctx.violation("byte_stable", "reparse|error", format!("builder {}: canonical image does not re-parse / re-serialize: {}", i, e));
                }
            }
            if c.labels.values().any(|v| v.len() > 1) {
                ctx.probe("several_labels_on_one_address");
            }
            if big && {
                let names: Vec<&String> = c.labels.values().flatten().collect();
                let mut d = names.clone();
                d.sort();
                d.dedup();
                d.len() != names.len()
            } {
                ctx.probe("be_equal_label_names_at_different_addresses");
            }
            if c.text.values().any(|s| c.labels.values().flatten().any(|l| l == s)) {
                ctx.probe("string_shared_with_label_name");
            }
            if c.labels.contains_key(&c.data.len()) {
                ctx.probe("label_at_end_address");
            }
            if c.data.len() % 4 != 0 {
                ctx.probe("data_length_not_multiple_of_4");
            }
        }
    }
    Ok(())
}

fn run(cfg: &Value, ctx: &mut RunCtx) -> Step<()> {
    let big = cfg["big"].as_bool().unwrap_or(false);
    let nb = cfg["builders"].as_u64().unwrap_or(3) as usize;
    ctx.max_ops = 2000;
    let mut builders: Vec<Builder> = Vec::new();
    for _ in 0..nb {
        builders.push(Builder { a: ctx.mila("new", || BinArchive::new(endian(big)))?, m: ArchModel::new(big), valid: true });
    }
    let mut planned: Vec<Op> = if ctx.is_replay() {
        Vec::new()
    } else {
        let mut r = Rng::sub(ctx.run_seed, "ops");
        let mut p = plan(&mut r, big, nb);
        p.reverse();
        p
    };
    let mut switches = 0;
    let mut last_b = usize::MAX;
    let mut checked = false;
    loop {
        let op: Op = match ctx.next_op(|_c| planned.pop())? {
            Some(o) => o,
            None => break,
        };
        let call = match &op.call {
            None => {
                final_check(ctx, &mut builders, big)?;
                checked = true;
                ctx.outcome("check", "ok", "");
                continue;
            }
            Some(c) => c,
        };
        if op.b >= builders.len() {
            continue;
        }
        if op.b != last_b {
            switches += 1;
            last_b = op.b;
        }
        match call {
            Call::CloneFrom { from } => {
                if *from >= builders.len() || *from == op.b {
                    continue;
                }
                let c = content_of(&builders[*from].m);
                if !builders[*from].valid || !in_domain(&c) {
                    ctx.outcome("clone", "skipped", "");
                    continue;
                }
                let src = &builders[*from].a;
                let parsed = ctx.mila("serialize+from_bytes", || src.serialize().and_then(|b| BinArchive::from_bytes(&b, endian(big))))?;
                match parsed {
                    Ok(a) => {
                        let mut m = ArchModel::new(big);
                        m.data = c.data.clone();
                        m.text = c.text.clone();
                        m.pointers = c.pointers.clone();
                        m.labels = c.labels.clone();
                        builders[op.b] = Builder { a, m, valid: true };
                        ctx.fault("clone_through_parse");
                        ctx.outcome("clone", "ok", "");
                    }
                    Err(e) => {
                        return ctx.violation("byte_stable", "reparse|error", format!("parse(serialize(builder {})) failed: {}", from, e));
                    }
                }
            }
            Call::DiskRoundTrip { compressed } => {
                let c = content_of(&builders[op.b].m);
                if !builders[op.b].valid || !in_domain(&c) {
                    ctx.outcome("disk", "skipped", "");
                    continue;
                }
                let dir = ctx.scratch.join("canon");
                let _ = std::fs::remove_dir_all(&dir);
                if std::fs::create_dir_all(&dir).is_err() {
                    return harness("cannot create scratch dir");
                }
                let game = if big { Game::FE10 } else { Game::FE14 };
                let name = match (compressed, big) {
                    (true, true) => "a.bin.cms",
                    (true, false) => "a.bin.lz",
                    _ => "a.bin",
                };
                let d = dir.to_string_lossy().to_string();
                let a = &builders[op.b].a;
                let r = ctx.mila("fs.write_archive+read_archive", || {
                    let fs = LayeredFilesystem::new(vec![d.clone()], Language::Japanese, game).map_err(|e| e.to_string())?;
                    fs.write_archive(name, a, false).map_err(|e| e.to_string())?;
                    fs.read_archive(name, false).map_err(|e| e.to_string())
                })?;
                let _ = std::fs::remove_dir_all(&dir);
                match r {
                    Ok(a2) => {
                        let mut m = ArchModel::new(big);
                        m.data = c.data.clone();
                        m.text = c.text.clone();
                        m.pointers = c.pointers.clone();
                        m.labels = c.labels.clone();
                        builders[op.b] = Builder { a: a2, m, valid: true };
                        ctx.fault("persist_and_reload");
                        ctx.outcome("disk", "ok", "");
                    }
                    Err(e) => {
                        return ctx.violation("byte_stable", "disk_round_trip|error", format!("persisting builder {} and reloading failed: {}", op.b, e));
                    }
                }
            }
            other => {
                let kind = match other {
                    Call::Allocate { .. } | Call::Deallocate { .. } => "structural",
                    Call::DeleteString { .. } | Call::DeletePointer { .. } | Call::DeleteLabel { .. } | Call::DeleteLabels { .. } => "delete",
                    _ => "write",
                };
                apply(ctx, &mut builders[op.b], other, op.via_stream)?;
                // the builder index is part of the fingerprint: distinct fingerprints = distinct interleavings
                ctx.outcome(&format!("b{}:{}", op.b, kind), "done", "");
                if kind == "structural" {
                    ctx.fault("rehash_by_rebuild");
                }
            }
        }
    }
    if !checked {
        final_check(ctx, &mut builders, big)?;
    }
    for b in &builders {
        if b.valid {
            ctx.state(b.m.state_hash());
        }
    }
    ctx.nontrivial = switches >= 4;
    Ok(())
}
