//! Scenario registry.

use crate::core::*;
use serde_json::Value;

pub mod arch;
pub mod tarc;
pub mod canon;
pub mod fsim;
pub mod lzfault;
pub mod corrupt;
pub mod texfault;

pub struct ScenDef {
    pub name: &'static str,
    pub props: &'static [&'static str],
    /// number of runs per arithmetic profile
    pub budget: fn(prop: &str, tier: Tier) -> u64,
    pub gen_cfg: fn(prop: &str, tier: Tier, run_seed: u64) -> Value,
    pub run: fn(cfg: &Value, ctx: &mut RunCtx) -> Step<()>,
    pub shrink_cfg: fn(cfg: &Value) -> Vec<Value>,
    pub shrink_op: fn(op: &Value) -> Vec<Value>,
    pub worker_init: fn(prop: &str),
    /// which property's statement governs a process-level failure (abort, hang) during `op`
    pub crash_owner: fn(prop: &str, op: &Value) -> String,
}

pub fn crash_is_ours(prop: &str, _op: &Value) -> String {
    prop.to_string()
}

pub fn no_shrink(_: &Value) -> Vec<Value> {
    Vec::new()
}

pub fn no_init(_: &str) {}

pub static ALL: &[&ScenDef] = &[&arch::DEF, &tarc::DEF, &canon::DEF, &fsim::DEF, &lzfault::DEF, &corrupt::DEF, &texfault::DEF];

pub fn for_prop(prop: &str) -> Option<&'static ScenDef> {
    ALL.iter().copied().find(|d| d.props.contains(&prop))
}

pub fn by_name(name: &str) -> Option<&'static ScenDef> {
    ALL.iter().copied().find(|d| d.name == name)
}
