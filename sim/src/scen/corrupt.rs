//! Scenario `corrupt` (C05): storage faults on archive-family files at rest,
//! read back by every parser of the family, directly and through the layered
//! filesystem, in an isolated worker with an allocator seam.
//!
//! Oracle: every call returns Ok or Err - no panic, no abort, no hang; the
//! largest single allocation request stays below 64 x input + 1 MiB; every
//! accepted value re-serializes without panicking.

use crate::core::*;
use crate::rng::Rng;
use crate::scen::ScenDef;
use indexmap::IndexMap;
use mila::{ASetFile, AssetBinary, AssetSpec, BinArchive, Endian, Game, Language, LayeredFilesystem, TextArchive, TextArchiveFormat};
use serde::{Deserialize, Serialize};
use serde_json::{json, Value};

pub static DEF: ScenDef = ScenDef {
    name: "corrupt",
    props: &["C05"],
    budget,
    gen_cfg,
    run,
    shrink_cfg: crate::scen::no_shrink,
    shrink_op,
    worker_init,
    crash_owner: crate::scen::crash_is_ours,
};

fn budget(_prop: &str, tier: Tier) -> u64 {
    match tier {
        Tier::Quick => 1_000,
        Tier::Thorough => 40_000,
    }
}

const ALLOC_CAP: usize = 256 << 20;

fn worker_init(_prop: &str) {
    // a header-driven request in the GiB range is refused (-> abort, attributed
    // by the supervisor through the journal) instead of being served 16 times over
    crate::alloc::set_cap(ALLOC_CAP);
}

fn alloc_bound(len: usize) -> usize {
    64 * len + (1 << 20)
}

#[derive(Serialize, Deserialize, Clone, Debug, PartialEq)]
#[serde(tag = "op")]
pub enum Op {
    /// a valid stored file of one family becomes the current file
    Base { family: String, #[serde(with = "hexser")] bytes: Vec<u8> },
    ZeroFault,
    TruncAll,
    /// the data section of a bin-archive-based file loses its last k bytes (k = 1..=48) and the
    /// header's size words are adjusted to match: a file re-packed around a torn payload. The
    /// tables stay intact, so the damage is only met when the contents are decoded.
    DataCutAll,
    /// boundary values planted in every (or sampled) 32-bit word, both byte orders
    PlantAll { sample_seed: u64 },
    FlipSample { seed: u64, n: u32 },
    /// two header words at once (a size word and a count, say): all pairs of the first eight
    /// words x a small value set, both byte orders
    PlantPairsHeader,
    Sector { kind: u8, pos: u64, fill: u64 },
    Splice { cut_a: u64, cut_b: u64 },
    Append { #[serde(with = "hexser")] tail: Vec<u8> },
    /// two or three faults at once
    Multi { seed: u64 },
    /// arbitrary bytes (sector-garbage-only file)
    Garbage { seed: u64, len: u32 },
    Raw { reader: String, #[serde(with = "hexser")] bytes: Vec<u8> },
}

fn gen_cfg(_prop: &str, _tier: Tier, run_seed: u64) -> Value {
    let mut r = Rng::sub(run_seed, "cfg");
    json!({ "disk": r.chance(1, 3) })
}

pub const DIRECT_READERS: [&str; 12] = [
    "bin_le", "bin_be", "txt_u_le", "txt_u_be", "txt_s_le", "txt_s_be", "arc", "fe9arc", "aset_le", "aset_be", "asset_le", "asset_be",
];

fn readers_for(family: &str) -> &'static [&'static str] {
    match family {
        "bin_le" => &["bin_le", "bin_be", "asset_le", "aset_le"],
        "bin_be" => &["bin_be", "bin_le", "txt_s_be"],
        "txt_u_le" => &["txt_u_le", "bin_le", "txt_s_le"],
        "txt_u_be" => &["txt_u_be", "bin_be"],
        "txt_s_le" => &["txt_s_le", "bin_le"],
        "txt_s_be" => &["txt_s_be", "bin_be", "txt_u_be"],
        "arc" => &["arc", "bin_le"],
        "fe9arc" => &["fe9arc"],
        "aset" => &["aset_le", "aset_be", "bin_le"],
        "asset" => &["asset_le", "asset_be", "bin_le"],
        _ => &DIRECT_READERS,
    }
}

// ---------------------------------------------------------------------------
// population: valid stored files of every family

fn rich_archive(r: &mut Rng, big: bool) -> Vec<u8> {
    let mut a = BinArchive::new(if big { Endian::Big } else { Endian::Little });
    let cells = r.range(1, 14);
    a.allocate_at_end(cells * 4);
    for i in 0..cells {
        match r.below(6) {
            0 => {
                let _ = a.write_string(i * 4, Some(*r.pick(&["A", "Bb", "名前", "", "Count"])));
            }
            1 => {
                let _ = a.write_pointer(i * 4, Some(r.below(cells + 1) * 4));
            }
            2 => {
                let _ = a.write_c_string(i * 4, r.pick(&["cs", "名", ""]).to_string());
            }
            _ => {
                let _ = a.write_u32(i * 4, r.next() as u32);
            }
        }
        if r.chance(1, 3) {
            let _ = a.write_label(i * 4, *r.pick(&["L1", "Count", "Info", "x", "名前"]));
        }
    }
    if r.chance(1, 3) {
        let _ = a.write_label(cells * 4, "END");
    }
    a.serialize().unwrap_or_default()
}

fn text_archive(r: &mut Rng, unicode: bool, big: bool) -> Vec<u8> {
    let fmt = if unicode { TextArchiveFormat::Unicode } else { TextArchiveFormat::ShiftJIS };
    let mut t = TextArchive::new(fmt, if big { Endian::Big } else { Endian::Little });
    if unicode {
        t.set_title(r.pick(&["", "T", "題"]).to_string());
    }
    let n = r.range(1, 6);
    for i in 0..n {
        t.set_message(&format!("K{}", i), *r.pick(&["hello", "a\\nb", "", "名前", "xy"]));
    }
    t.serialize().unwrap_or_default()
}

pub fn pack_archive(r: &mut Rng) -> Vec<u8> {
    let mut m: IndexMap<String, Vec<u8>> = IndexMap::new();
    let n = r.range(0, 4);
    for i in 0..n {
        let len = *r.pick(&[0usize, 1, 31, 32, 33, 7]);
        m.insert(format!("{}{}", r.pick(&["f", "名", "data.bin"]), i), r.bytes(len));
    }
    mila::fe9_arc::serialize(&m).unwrap_or_default()
}

/// 3DS arc image built by the harness through BinArchive (mila has no arc writer)
pub fn arc_image(r: &mut Rng) -> Vec<u8> {
    let n = r.range(0, 3);
    let padded = r.chance(1, 2);
    let files: Vec<Vec<u8>> = (0..n).map(|_| { let k = r.below(20); r.bytes(k) }).collect();
    let mut a = BinArchive::new(Endian::Little);
    let header = if padded { 0x60 } else { 0 };
    // layout: [padding] bodies (4-aligned) | count cell | info records
    let mut body = vec![0u8; header];
    if !padded {
        body.extend_from_slice(&1u32.to_le_bytes());
    }
    let mut offs = Vec::new();
    for f in &files {
        offs.push(body.len() - header);
        body.extend_from_slice(f);
        while body.len() % 4 != 0 {
            body.push(0);
        }
    }
    let count_addr = body.len();
    a.allocate_at_end(count_addr + 4 + n * 16);
    let _ = a.write_bytes(0, &body);
    let _ = a.write_u32(count_addr, n as u32);
    let _ = a.write_label(count_addr, "Count");
    let info = count_addr + 4;
    let _ = a.write_label(info, "Info");
    for (i, f) in files.iter().enumerate() {
        let rec = info + i * 16;
        let _ = a.write_string(rec, Some(&format!("file{}", i)));
        let _ = a.write_u32(rec + 4, i as u32);
        let _ = a.write_u32(rec + 8, f.len() as u32);
        let _ = a.write_u32(rec + 12, offs[i] as u32);
    }
    a.serialize().unwrap_or_default()
}

fn aset_file(r: &mut Rng) -> Vec<u8> {
    let mut f = ASetFile::new(if r.chance(1, 2) { Some("meta".into()) } else { None });
    for i in 0..257 {
        f.anim_clip_table.push(if r.chance(1, 20) { Some(format!("c{}", i)) } else { None });
    }
    for s in 0..r.range(0, 3) {
        let mut set: Vec<Option<String>> = vec![if r.chance(1, 2) { Some(format!("SET{}", s)) } else { None }];
        for i in 0..256 {
            set.push(if r.chance(1, 24) { Some(format!("a{}", i)) } else { None });
        }
        f.sets.push(set);
    }
    f.serialize().unwrap_or_default()
}

fn asset_file(r: &mut Rng) -> Vec<u8> {
    let mut b = AssetBinary::new();
    b.flags = r.next() as u32;
    for _ in 0..r.range(0, 3) {
        let mut s = AssetSpec::default();
        s.name = Some("n".into());
        if r.chance(1, 2) {
            s.body_model = Some("bm".into());
        }
        if r.chance(1, 2) {
            s.voice = Some("v".into());
        }
        if r.chance(1, 2) {
            s.use_model_size = true;
            s.model_size = 1.5;
        }
        if r.chance(1, 2) {
            s.use_hair_color = true;
            s.hair_color = [1, 2, 3, 4];
        }
        if r.chance(1, 3) {
            s.use_unk13 = true;
            s.unk13 = 7;
        }
        b.specs.push(s);
    }
    b.serialize().unwrap_or_default()
}

fn sample_file(name: &str) -> Option<Vec<u8>> {
    std::fs::read(format!("/repo/resources/test/{}", name)).ok()
}

fn gen_base(r: &mut Rng) -> (String, Vec<u8>) {
    let pick = r.weighted(&[18, 14, 8, 6, 6, 8, 10, 10, 6, 8, 6]);
    let made: Result<(String, Vec<u8>), PanicInfo> = guarded(|| match pick {
        0 => ("bin_le".to_string(), rich_archive(r, false)),
        1 => ("bin_be".to_string(), rich_archive(r, true)),
        2 => ("txt_u_le".to_string(), text_archive(r, true, false)),
        3 => ("txt_u_be".to_string(), text_archive(r, true, true)),
        4 => ("txt_s_le".to_string(), text_archive(r, false, false)),
        5 => ("txt_s_be".to_string(), text_archive(r, false, true)),
        6 => ("arc".to_string(), arc_image(r)),
        7 => ("fe9arc".to_string(), pack_archive(r)),
        8 => ("aset".to_string(), aset_file(r)),
        9 => ("asset".to_string(), asset_file(r)),
        _ => {
            // the repository's own sample files
            let samples: [(&str, &str); 12] = [
                ("FE14Aset_Test.bin", "aset"),
                ("ArcTest1.bin", "bin_le"),
                ("ArcTest.arc", "arc"),
                ("ArchiveTest_Mixed1.bin", "bin_le"),
                ("ArchiveTest_Mixed2.bin", "bin_le"),
                ("ArchiveTest_OnlyText.bin", "bin_le"),
                ("AssetBinary_Test.bin", "asset"),
                ("FE9Arc.bin", "fe9arc"),
                ("TextArchive_Legacy_Test.bin", "txt_s_be"),
                ("TextArchive_Test.bin", "txt_u_le"),
                ("ArchiveTest_BadSize.bin", "bin_le"),
                ("Allocate_NoLabelShift.bin", "bin_le"),
            ];
            let (n, fam) = samples[r.below(samples.len())];
            (fam.to_string(), sample_file(n).unwrap_or_default())
        }
    });
    made.unwrap_or(("bin_le".to_string(), Vec::new()))
}

// ---------------------------------------------------------------------------

struct World {
    family: String,
    cur: Vec<u8>,
    prev: Vec<u8>,
    fs: Vec<(String, LayeredFilesystem)>,
    dir: std::path::PathBuf,
    tick: u64,
}

/// parse `bytes` with `reader`; accepted values are re-serialized. Returns Ok(accepted?)
fn call_reader(reader: &str, bytes: &[u8], w: &World) -> Result<bool, String> {
    fn bin(bytes: &[u8], e: Endian) -> Result<bool, String> {
        match BinArchive::from_bytes(bytes, e) {
            Ok(a) => {
                let _ = a.serialize();
                Ok(true)
            }
            Err(_) => Ok(false),
        }
    }
    fn txt(bytes: &[u8], f: TextArchiveFormat, e: Endian) -> Result<bool, String> {
        match TextArchive::from_bytes(bytes, f, e) {
            Ok(a) => {
                let _ = a.serialize();
                Ok(true)
            }
            Err(_) => Ok(false),
        }
    }
    match reader {
        "bin_le" => bin(bytes, Endian::Little),
        "bin_be" => bin(bytes, Endian::Big),
        "txt_u_le" => txt(bytes, TextArchiveFormat::Unicode, Endian::Little),
        "txt_u_be" => txt(bytes, TextArchiveFormat::Unicode, Endian::Big),
        "txt_s_le" => txt(bytes, TextArchiveFormat::ShiftJIS, Endian::Little),
        "txt_s_be" => txt(bytes, TextArchiveFormat::ShiftJIS, Endian::Big),
        "arc" => Ok(mila::arc::from_bytes(bytes).is_ok()),
        "fe9arc" => match mila::fe9_arc::parse(bytes) {
            Ok(m) => {
                let _ = mila::fe9_arc::serialize(&m);
                Ok(true)
            }
            Err(_) => Ok(false),
        },
        "aset_le" | "aset_be" => {
            let e = if reader == "aset_le" { Endian::Little } else { Endian::Big };
            match BinArchive::from_bytes(bytes, e).and_then(|a| ASetFile::from_archive(&a)) {
                Ok(f) => {
                    let _ = f.serialize();
                    Ok(true)
                }
                Err(_) => Ok(false),
            }
        }
        "asset_le" | "asset_be" => {
            let e = if reader == "asset_le" { Endian::Little } else { Endian::Big };
            match BinArchive::from_bytes(bytes, e).and_then(|a| AssetBinary::from_archive(&a)) {
                Ok(f) => {
                    let _ = f.serialize();
                    Ok(true)
                }
                Err(_) => Ok(false),
            }
        }
        other => {
            // fs:<what>:<game>:<plain|comp> - the fault is applied to the image *before*
            // fs.write compresses it, so the stored stream is valid
            let parts: Vec<&str> = other.split(':').collect();
            if parts.len() != 4 || parts[0] != "fs" {
                return Err(format!("unknown reader {}", other));
            }
            let fs = match w.fs.iter().find(|f| f.0 == parts[2]) {
                Some(f) => &f.1,
                None => return Ok(false),
            };
            let lz10 = parts[2] == "FE10";
            let name = match (parts[3], lz10) {
                ("comp", true) => "c05.bin.cmp",
                ("comp", false) => "c05.bin.lz",
                _ => "c05.bin",
            };
            if fs.write(name, bytes, false).is_err() {
                return Ok(false);
            }
            Ok(match parts[1] {
                "archive" => fs.read_archive(name, false).map(|a| { let _ = a.serialize(); }).is_ok(),
                "text" => fs.read_text_archive(name, false).map(|a| { let _ = a.serialize(); }).is_ok(),
                "arc" => fs.read_arc(name, false).is_ok(),
                _ => fs.read_fe9_arc(name, false).is_ok(),
            })
        }
    }
}

/// Independent reading of the declarations in a file: does the header or an entry declare more
/// data / table entries / file bytes than the buffer holds? (None = this reader's layout is not
/// modelled, or the file is too damaged to say)
fn over_declares(reader: &str, b: &[u8]) -> Option<bool> {
    let be32 = |o: usize| b.get(o..o + 4).map(|s| u32::from_be_bytes([s[0], s[1], s[2], s[3]]) as u64);
    let le32 = |o: usize| b.get(o..o + 4).map(|s| u32::from_le_bytes([s[0], s[1], s[2], s[3]]) as u64);
    match reader {
        "fe9arc" => {
            if b.len() < 8 || &b[0..4] != b"pack" {
                return None;
            }
            let count = u16::from_be_bytes([b[4], b[5]]) as usize;
            if 8 + count * 16 > b.len() {
                return Some(true);
            }
            for i in 0..count {
                let e = 8 + i * 16;
                let addr = be32(e + 8)?;
                let size = be32(e + 12)?;
                if addr + size > b.len() as u64 {
                    return Some(true);
                }
            }
            Some(false)
        }
        "bin_le" | "bin_be" => {
            if b.len() < 0x20 {
                return None;
            }
            let rd = |o: usize| if reader == "bin_be" { be32(o) } else { le32(o) };
            let need = 0x20 + rd(4)? + rd(8)? * 4 + rd(12)? * 8;
            Some(need > b.len() as u64)
        }
        "arc" => {
            // a little-endian bin archive whose labels "Count" and "Info" name the record count and
            // the record table (name pointer, index, size, address); file bytes lie in the data section
            if b.len() < 0x20 {
                return None;
            }
            let data_size = le32(4)?;
            let labels_at = 0x20 + data_size + le32(8)? * 4;
            let text_at = labels_at + le32(12)? * 8;
            if text_at > b.len() as u64 {
                return Some(true);
            }
            let mut count_at: Vec<u64> = Vec::new();
            let mut info_at: Vec<u64> = Vec::new();
            for i in 0..le32(12)? {
                let addr = le32((labels_at + 8 * i) as usize)?;
                let off = le32((labels_at + 8 * i + 4) as usize)?;
                let start = (text_at + off) as usize;
                let name = b.get(start..)?;
                let end = name.iter().position(|c| *c == 0)?;
                match &name[..end] {
                    b"Count" => count_at.push(addr),
                    b"Info" => info_at.push(addr),
                    _ => {}
                }
            }
            count_at.sort();
            count_at.dedup();
            info_at.sort();
            info_at.dedup();
            if count_at.len() != 1 || info_at.len() != 1 {
                return None; // no table, or which of several the reader picks is not defined
            }
            let (count_at, info_at) = (count_at[0], info_at[0]);
            if data_size < 4 || count_at + 4 > data_size {
                return None;
            }
            let count = le32(0x20 + count_at as usize)?;
            let padding = if le32(0x20)? == 0 { 0x60 } else { 0 };
            if info_at + count * 16 > data_size {
                return Some(true);
            }
            for i in 0..count {
                let e = (0x20 + info_at + 16 * i) as usize;
                let size = le32(e + 8)?;
                let address = le32(e + 12)? + padding;
                // (an empty file declares no bytes, wherever it is said to lie)
                if size > 0 && 0x20 + address + size > b.len() as u64 {
                    return Some(true);
                }
            }
            Some(false)
        }
        _ => None,
    }
}

fn case(ctx: &mut RunCtx, w: &mut World, reader: &str, bytes: &[u8]) -> Step<()> {
    if reader.starts_with("fs:") && bytes.len() > 1200 {
        return Ok(()); // LZ13 compression is quadratic
    }
    crate::alloc::window_start();
    let got = guarded(|| call_reader(reader, bytes, w));
    let max_req = crate::alloc::window_max();
    ctx.probe("cases_evaluated");
    if (max_req as u64) > ctx.stats.max_alloc {
        ctx.stats.max_alloc = max_req as u64;
    }
    let mut h = crate::rng::H64::new();
    h.str(reader);
    h.bytes(bytes);
    ctx.state(h.finish());
    let refine = |ctx: &mut RunCtx| {
        let raw = serde_json::to_value(Op::Raw { reader: reader.to_string(), bytes: bytes.to_vec() }).unwrap();
        if let Some(last) = ctx.trace_ops.last_mut() {
            *last = raw;
        }
    };
    let short = hex(&bytes[..bytes.len().min(64)]);
    match got {
        Err(p) => {
            refine(ctx);
            ctx.violation(
                "no_panic",
                format!("panic|{}|{}|{}", reader.split(':').take(2).collect::<Vec<_>>().join(":"), p.file.rsplit('/').next().unwrap_or(""), strip_digits(&p.message)),
                format!("reader {} panicked at {}:{}: {} on {} bytes {}", reader, p.file, p.line, p.message, bytes.len(), short),
            )
        }
        Ok(Err(e)) => harness(e),
        Ok(Ok(accepted)) => {
            ctx.probe(if accepted { "accepted" } else { "rejected" });
            if over_declares(reader, bytes) == Some(true) {
                ctx.probe("over_declaring_file");
                if accepted {
                    refine(ctx);
                    return ctx.violation(
                        "over_declaration_rejected",
                        format!("accepted_over_declaring|{}", reader),
                        format!("reader {} accepted a {}-byte file whose header or an entry declares more than the buffer holds: {}", reader, bytes.len(), short),
                    );
                }
            }
            // the filesystem path compresses / decompresses: buffers proportional to the payload only
            if max_req > alloc_bound(bytes.len()) {
                refine(ctx);
                return ctx.violation(
                    "allocation_bound",
                    format!("alloc|{}", reader.split(':').take(2).collect::<Vec<_>>().join(":")),
                    format!("reader {} requested a single buffer of {} bytes for a {}-byte input (bound {}): {}", reader, max_req, bytes.len(), alloc_bound(bytes.len()), short),
                );
            }
            Ok(())
        }
    }
}

fn all_readers(ctx: &mut RunCtx, w: &mut World, bytes: &[u8], fs_every: u64) -> Step<()> {
    let fam = w.family.clone();
    for rd in readers_for(&fam) {
        case(ctx, w, rd, bytes)?;
    }
    w.tick += 1;
    // cross-feeding: every file is arbitrary bytes to the other parsers
    if w.tick % 5 == 0 {
        let rd = DIRECT_READERS[(w.tick / 5) as usize % DIRECT_READERS.len()];
        case(ctx, w, rd, bytes)?;
    }
    if fs_every > 0 && !w.fs.is_empty() && w.tick % fs_every == 0 {
        let what = match fam.as_str() {
            "arc" => "arc",
            "fe9arc" => "fe9arc",
            f if f.starts_with("txt") => "text",
            _ => "archive",
        };
        let game = if fam.ends_with("_be") || fam == "fe9arc" { "FE10" } else { "FE14" };
        let comp = if (w.tick / fs_every) % 2 == 0 { "comp" } else { "plain" };
        case(ctx, w, &format!("fs:{}:{}:{}", what, game, comp), bytes)?;
    }
    Ok(())
}

fn planted_values(len: usize) -> Vec<u32> {
    let l = len as u32;
    let mut v = vec![0, 1, 3, 4, 7, 8, 0x1F, 0x20, 0x21, l.wrapping_sub(1), l, l.wrapping_add(1), l.wrapping_sub(0x20), 0x1FFF_FFFF, 0x2000_0000, 0x3FFF_FFFF, 0x4000_0000, 0x7FFF_FFFF, 0x8000_0000];
    for k in 0..16u32 {
        v.push(0xFFFF_FFF0 + k);
    }
    v
}

fn apply_sector(c: &mut Vec<u8>, prev: &[u8], kind: u8, pos: u64, fill: u64) {
    if c.is_empty() {
        return;
    }
    let size = [16usize, 32, 64, 512][(fill % 4) as usize];
    let s = ((pos as usize) % c.len()) / size * size;
    let e = (s + size).min(c.len());
    let mut r = Rng::new(fill);
    for i in s..e {
        c[i] = match kind {
            0 => 0,
            1 => r.next() as u8,
            _ => *prev.get(i).unwrap_or(&0xEE),
        };
    }
}

fn exec(ctx: &mut RunCtx, w: &mut World, op: &Op) -> Step<()> {
    match op {
        Op::Base { family, bytes } => {
            w.prev = std::mem::replace(&mut w.cur, bytes.clone());
            w.family = family.clone();
            ctx.outcome("base", family, &format!("{} bytes", bytes.len()));
            Ok(())
        }
        Op::ZeroFault => {
            let b = w.cur.clone();
            all_readers(ctx, w, &b, 1)?;
            ctx.outcome("zero_fault", "ok", "");
            Ok(())
        }
        Op::TruncAll => {
            let b = w.cur.clone();
            let step = if b.len() > 2048 { b.len() / 700 } else { 1 };
            let mut k = 0;
            while k < b.len() {
                all_readers(ctx, w, &b[..k], 16)?;
                k += step;
            }
            ctx.fault("truncation");
            ctx.outcome("trunc_all", "ok", "");
            Ok(())
        }
        Op::DataCutAll => {
            let b = w.cur.clone();
            if b.len() >= 0x20 && &b[0..4] != b"pack" {
                for big in [false, true] {
                    let rd = |o: usize| {
                        let x = [b[o], b[o + 1], b[o + 2], b[o + 3]];
                        if big { u32::from_be_bytes(x) } else { u32::from_le_bytes(x) }
                    };
                    let (total, ds) = (rd(0), rd(4) as usize);
                    if ds == 0 || 0x20 + ds > b.len() {
                        continue;
                    }
                    for k in 1..=ds.min(48) {
                        let mut c = b[..0x20 + ds - k].to_vec();
                        c.extend_from_slice(&b[0x20 + ds..]);
                        let put = |c: &mut Vec<u8>, o: usize, v: u32| c[o..o + 4].copy_from_slice(&if big { v.to_be_bytes() } else { v.to_le_bytes() });
                        put(&mut c, 0, total.wrapping_sub(k as u32));
                        put(&mut c, 4, (ds - k) as u32);
                        all_readers(ctx, w, &c, 8)?;
                    }
                    ctx.fault("data_section_cut");
                }
            }
            ctx.outcome("data_cut_all", "ok", "");
            Ok(())
        }
        Op::PlantAll { sample_seed } => {
            let b = w.cur.clone();
            let words = b.len() / 4;
            let vals = planted_values(b.len());
            let mut r = Rng::new(*sample_seed);
            let positions: Vec<usize> = if words <= 160 {
                (0..words).collect()
            } else {
                let mut p: Vec<usize> = (0..16).collect();
                for _ in 0..96 {
                    p.push(r.below(words));
                }
                p
            };
            for wpos in positions {
                for v in &vals {
                    for big in [false, true] {
                        let mut c = b.clone();
                        let bytes4 = if big { v.to_be_bytes() } else { v.to_le_bytes() };
                        c[wpos * 4..wpos * 4 + 4].copy_from_slice(&bytes4);
                        all_readers(ctx, w, &c, 64)?;
                    }
                }
            }
            ctx.fault("word_plant");
            ctx.outcome("plant_all", "ok", "");
            Ok(())
        }
        Op::PlantPairsHeader => {
            let b = w.cur.clone();
            let words = (b.len() / 4).min(8);
            let l = b.len() as u32;
            let vals = [0u32, 0x20, l.wrapping_add(0x40), 0x0040_0000, 0x7FFF_FFFF, 0xFFFF_FFF0];
            for i in 0..words {
                for j in (i + 1)..words {
                    for vi in &vals {
                        for vj in &vals {
                            for big in [false, true] {
                                let mut c = b.clone();
                                let (bi, bj) = if big { (vi.to_be_bytes(), vj.to_be_bytes()) } else { (vi.to_le_bytes(), vj.to_le_bytes()) };
                                c[i * 4..i * 4 + 4].copy_from_slice(&bi);
                                c[j * 4..j * 4 + 4].copy_from_slice(&bj);
                                all_readers(ctx, w, &c, 0)?;
                            }
                        }
                    }
                }
            }
            ctx.fault("word_pair_plant");
            ctx.outcome("plant_pairs_header", "ok", "");
            Ok(())
        }
        Op::FlipSample { seed, n } => {
            let b = w.cur.clone();
            if b.is_empty() {
                return Ok(());
            }
            let mut r = Rng::new(*seed);
            for _ in 0..*n {
                let mut c = b.clone();
                let bit = r.below(b.len() * 8);
                c[bit / 8] ^= 1 << (bit % 8);
                all_readers(ctx, w, &c, 16)?;
            }
            ctx.fault("bit_flip");
            ctx.outcome("flip_sample", "ok", "");
            Ok(())
        }
        Op::Sector { kind, pos, fill } => {
            let mut c = w.cur.clone();
            let prev = w.prev.clone();
            apply_sector(&mut c, &prev, *kind, *pos, *fill);
            all_readers(ctx, w, &c, 1)?;
            ctx.fault(match kind {
                0 => "sector_zero",
                1 => "sector_garbage",
                _ => "sector_misdirect",
            });
            ctx.outcome("sector", "ok", "");
            Ok(())
        }
        Op::Splice { cut_a, cut_b } => {
            let ca = (*cut_a as usize) % (w.cur.len() + 1);
            let cb = (*cut_b as usize) % (w.prev.len() + 1);
            let mut c = w.cur[..ca].to_vec();
            c.extend_from_slice(&w.prev[cb..]);
            all_readers(ctx, w, &c, 1)?;
            ctx.fault("splice");
            ctx.outcome("splice", "ok", "");
            Ok(())
        }
        Op::Append { tail } => {
            let mut c = w.cur.clone();
            c.extend_from_slice(tail);
            all_readers(ctx, w, &c, 1)?;
            ctx.fault("append_garbage");
            ctx.outcome("append", "ok", "");
            Ok(())
        }
        Op::Multi { seed } => {
            let mut r = Rng::new(*seed);
            let mut c = w.cur.clone();
            let prev = w.prev.clone();
            for _ in 0..r.range(2, 3) {
                if c.is_empty() {
                    break;
                }
                match r.below(4) {
                    0 => {
                        let bit = r.below(c.len() * 8);
                        c[bit / 8] ^= 1 << (bit % 8);
                    }
                    1 => {
                        let vals = planted_values(c.len());
                        if c.len() >= 4 {
                            let p = r.below(c.len() / 4) * 4;
                            let v = vals[r.below(vals.len())];
                            let b4 = if r.chance(1, 2) { v.to_be_bytes() } else { v.to_le_bytes() };
                            c[p..p + 4].copy_from_slice(&b4);
                        }
                    }
                    2 => apply_sector(&mut c, &prev, r.below(3) as u8, r.next(), r.next()),
                    _ => {
                        let n = r.below(c.len() + 1);
                        c.truncate(n);
                    }
                }
            }
            all_readers(ctx, w, &c, 1)?;
            ctx.fault("multi_fault");
            ctx.outcome("multi", "ok", "");
            Ok(())
        }
        Op::Garbage { seed, len } => {
            let mut r = Rng::new(*seed);
            let c = r.bytes(*len as usize);
            for rd in DIRECT_READERS {
                case(ctx, w, rd, &c)?;
            }
            ctx.fault("garbage_file");
            ctx.outcome("garbage", "ok", "");
            Ok(())
        }
        Op::Raw { reader, bytes } => {
            let b = bytes.clone();
            case(ctx, w, reader, &b)?;
            ctx.outcome("raw", "ok", "");
            Ok(())
        }
    }
}

fn run(cfg: &Value, ctx: &mut RunCtx) -> Step<()> {
    let disk = cfg["disk"].as_bool().unwrap_or(false);
    ctx.max_ops = 64;
    crate::alloc::set_cap(ALLOC_CAP);
    let dir = ctx.scratch.join("c05");
    let mut w = World { family: "any".into(), cur: Vec::new(), prev: Vec::new(), fs: Vec::new(), dir: dir.clone(), tick: 0 };
    if disk || ctx.is_replay() {
        let _ = std::fs::remove_dir_all(&dir);
        std::fs::create_dir_all(&dir).map_err(|e| Stop::Harness(format!("scratch: {}", e)))?;
        let d = dir.to_string_lossy().to_string();
        for (name, g) in [("FE10", Game::FE10), ("FE14", Game::FE14)] {
            if let Ok(Ok(fs)) = guarded(|| LayeredFilesystem::new(vec![d.clone()], Language::EnglishNA, g)) {
                w.fs.push((name.to_string(), fs));
            }
        }
    }
    let mut planned: Vec<Op> = Vec::new();
    if !ctx.is_replay() && ctx.run_seed % 64 == 7 {
        // a large pack archive (more than 4096 entries, 16-bit counters and strides): read intact,
        // with a few faults only (full enumeration of a 150 KiB file would take minutes)
        let mut r = Rng::sub(ctx.run_seed, "ops");
        let big = guarded(|| {
            let mut m: IndexMap<String, Vec<u8>> = IndexMap::new();
            let n = 4097 + r.below(40);
            for i in 0..n {
                m.insert(format!("f{}", i), if i % 97 == 0 { vec![i as u8; 3] } else { Vec::new() });
            }
            mila::fe9_arc::serialize(&m).unwrap_or_default()
        })
        .unwrap_or_default();
        planned.push(Op::Base { family: "fe9arc".into(), bytes: big });
        planned.push(Op::ZeroFault);
        for _ in 0..4 {
            planned.push(Op::Multi { seed: r.next() });
        }
        planned.reverse();
        ctx.probe("pack_with_more_than_4096_entries");
    } else if !ctx.is_replay() {
        let mut r = Rng::sub(ctx.run_seed, "ops");
        if r.chance(1, 6) {
            planned.push(Op::Garbage { seed: r.next(), len: r.range(0, 200) as u32 });
        }
        let files = r.range(1, 2);
        for _ in 0..files {
            let (family, bytes) = gen_base(&mut r);
            planned.push(Op::Base { family, bytes });
            planned.push(Op::ZeroFault);
            planned.push(Op::TruncAll);
            planned.push(Op::DataCutAll);
            planned.push(Op::PlantAll { sample_seed: r.next() });
            planned.push(Op::PlantPairsHeader);
            planned.push(Op::FlipSample { seed: r.next(), n: 256 });
            for _ in 0..r.range(1, 4) {
                planned.push(Op::Sector { kind: r.below(3) as u8, pos: r.next(), fill: r.next() });
            }
            for _ in 0..r.range(0, 3) {
                planned.push(Op::Splice { cut_a: r.next(), cut_b: r.next() });
            }
            let n = r.range(1, 12);
            planned.push(Op::Append { tail: r.bytes(n) });
            for _ in 0..r.range(4, 24) {
                planned.push(Op::Multi { seed: r.next() });
            }
        }
        planned.reverse();
    }
    let mut result = Ok(());
    loop {
        let op: Op = match ctx.next_op(|_c| planned.pop())? {
            Some(o) => o,
            None => break,
        };
        if let Err(e) = exec(ctx, &mut w, &op) {
            result = Err(e);
            break;
        }
    }
    drop(w);
    let _ = std::fs::remove_dir_all(&dir);
    ctx.nontrivial = true;
    result
}

fn shrink_op(op: &Value) -> Vec<Value> {
    let mut out = Vec::new();
    if let Ok(Op::Raw { reader, bytes }) = serde_json::from_value::<Op>(op.clone()) {
        if bytes.len() > 1 {
            out.push(serde_json::to_value(Op::Raw { reader: reader.clone(), bytes: bytes[..bytes.len() - 1].to_vec() }).unwrap());
            out.push(serde_json::to_value(Op::Raw { reader: reader.clone(), bytes: bytes[..bytes.len() / 2].to_vec() }).unwrap());
        }
        // zero as much of the file as possible
        for chunk in [64usize, 16, 4] {
            let mut i = 0;
            while i < bytes.len() {
                let e = (i + chunk).min(bytes.len());
                if bytes[i..e].iter().any(|b| *b != 0) {
                    let mut c = bytes.clone();
                    for x in &mut c[i..e] {
                        *x = 0;
                    }
                    out.push(serde_json::to_value(Op::Raw { reader: reader.clone(), bytes: c }).unwrap());
                }
                i += chunk;
            }
            if out.len() > 200 {
                break;
            }
        }
    }
    out
}
