//! Scenario `texfault` (C20): texture containers, complete and torn.
//!
//! A peer packs 0-6 textures into a CTPK, BCH, CGFX or TPL container with
//! seeded placement; the complete file (zero-fault configuration) must yield
//! the packed textures; every strict prefix (torn write / crash point) must be
//! read without panicking and must yield an error whenever the cut removes
//! part of a texture payload.

use crate::core::*;
use crate::model::texpack::{self, Tex};
use crate::rng::Rng;
use crate::scen::ScenDef;
use serde::{Deserialize, Serialize};
use serde_json::{json, Value};

pub static DEF: ScenDef = ScenDef {
    name: "texfault",
    props: &["C20"],
    budget,
    gen_cfg,
    run,
    shrink_cfg: crate::scen::no_shrink,
    shrink_op,
    worker_init: crate::scen::no_init,
    crash_owner: crate::scen::crash_is_ours,
};

fn budget(_prop: &str, tier: Tier) -> u64 {
    match tier {
        Tier::Quick => 6_000,
        Tier::Thorough => 400_000,
    }
}

#[derive(Serialize, Deserialize, Clone, Debug, PartialEq)]
#[serde(tag = "op")]
pub enum Op {
    /// a peer-written container becomes the current file
    Base { kind: String, #[serde(with = "hexser")] bytes: Vec<u8>, textures: Vec<Tex>, payload_ends: Vec<usize> },
    ZeroFault,
    /// every strict prefix
    PrefixAll,
    BadMagic { seed: u64 },
    /// one explicit file: must_err = the cut removed part of a payload
    Raw { kind: String, #[serde(with = "hexser")] bytes: Vec<u8>, must_err: bool },
    /// one explicit file with a wrong magic number: must be rejected
    RawMagic { kind: String, #[serde(with = "hexser")] bytes: Vec<u8> },
}

fn gen_cfg(_prop: &str, tier: Tier, run_seed: u64) -> Value {
    let mut r = Rng::sub(run_seed, "cfg");
    json!({ "kind": *r.pick(&["ctpk", "bch", "cgfx", "tpl"]), "disk": r.chance(1, 3), "max_side": if tier == Tier::Thorough && r.chance(1, 8) { 128 } else { 64 } })
}

const NAMES: &[&str] = &["tex", "a", "名前", "face_01", "ｱｲ", "", "x y.png", "テクスチャ"];

fn gen_textures(r: &mut Rng, kind: &str, max_side: usize) -> Vec<Tex> {
    let n = match r.weighted(&[8, 30, 25, 15, 10, 7, 5]) {
        k => k,
    };
    let mut v = Vec::new();
    for i in 0..n {
        let mut name = format!("{}{}", r.pick(NAMES), if r.chance(1, 2) { i.to_string() } else { String::new() });
        if r.chance(1, 12) {
            // long names (64 bytes and more in the container's encoding)
            name = if r.chance(1, 2) { format!("{}{}", "long_texture_name_".repeat(4), i) } else { format!("{}{}", "テクスチャ".repeat(8), i) };
        }
        if kind == "tpl" {
            let w = r.range(1, 64);
            let h = r.range(1, 64);
            let size = texpack::ci8_size(w, h);
            // palettes of 1..=256 entries (not only multiples of 16); every index stays inside the palette
            let entries = if r.chance(1, 2) { 256 } else { r.range(1, 256) };
            let payload: Vec<u8> = (0..size).map(|_| r.below(entries) as u8).collect();
            v.push(Tex { name: String::new(), width: w, height: h, format: 9, payload, palette: r.bytes(entries * 2) });
        } else {
            let sides = [8usize, 8, 16, 16, 32, max_side];
            let w = *r.pick(&sides);
            let h = *r.pick(&sides);
            let format = *r.pick(&texpack::FORMATS_3DS);
            let size = texpack::payload_size(format, w, h);
            v.push(Tex { name, width: w, height: h, format, payload: r.bytes(size), palette: Vec::new() });
        }
    }
    v
}

type Parsed = Vec<(String, usize, usize, Vec<u8>)>;

fn read_kind(kind: &str, bytes: &[u8]) -> Result<Result<Parsed, String>, PanicInfo> {
    guarded(|| {
        let r = match kind {
            "ctpk" => mila::ctpk::read(bytes),
            "bch" => mila::bch::read(bytes),
            "cgfx" => mila::cgfx::read(bytes),
            _ => mila::tpl::Tpl::extract_textures(bytes),
        };
        r.map(|v| v.into_iter().map(|t| (t.filename, t.width, t.height, t.pixel_data)).collect()).map_err(|e| e.to_string())
    })
}

struct World {
    kind: String,
    cur: Vec<u8>,
    texs: Vec<Tex>,
    ends: Vec<usize>,
    /// the container also goes through the layered filesystem on the simulated disk
    fs: Option<(mila::LayeredFilesystem, std::path::PathBuf)>,
    tick: u64,
}

/// the file as a torn write left it on the simulated disk, read by the typed helper
fn read_via_fs(w: &World, kind: &str, bytes: &[u8]) -> Option<Result<Result<usize, String>, PanicInfo>> {
    let (fs, dir) = w.fs.as_ref()?;
    let name = "tex.bin";
    std::fs::write(dir.join(name), bytes).ok()?;
    Some(guarded(|| match kind {
        "ctpk" => fs.read_ctpk_textures(name, false).map(|m| m.len()).map_err(|e| e.to_string()),
        "bch" => fs.read_bch_textures(name, false).map(|m| m.len()).map_err(|e| e.to_string()),
        "cgfx" => fs.read_cgfx_textures(name, false).map(|m| m.len()).map_err(|e| e.to_string()),
        _ => fs.read_tpl_textures(name, false).map(|m| m.len()).map_err(|e| e.to_string()),
    }))
}

fn refine(ctx: &mut RunCtx, kind: &str, bytes: &[u8], must_err: bool) {
    let raw = serde_json::to_value(Op::Raw { kind: kind.to_string(), bytes: bytes.to_vec(), must_err }).unwrap();
    if let Some(last) = ctx.trace_ops.last_mut() {
        *last = raw;
    }
}

/// pixel data of one texture obtained from a single-texture, canonically
/// placed container holding the same payload (isolates container logic from
/// pixel decoding, which is C19's subject)
fn reference_pixels(t: &Tex, tpl: bool) -> Option<Vec<u8>> {
    let mut q = Rng::new(7);
    let single = if tpl { texpack::pack_tpl(&mut q, std::slice::from_ref(t), true) } else { texpack::pack_ctpk(&mut q, std::slice::from_ref(t), true) };
    match read_kind(if tpl { "tpl" } else { "ctpk" }, &single.bytes) {
        Ok(Ok(v)) if v.len() == 1 => Some(v[0].3.clone()),
        _ => None,
    }
}

fn prefix_case(ctx: &mut RunCtx, kind: &str, bytes: &[u8], must_err: bool) -> Step<()> {
    ctx.probe("cases_evaluated");
    let mut h = crate::rng::H64::new();
    h.str(kind);
    h.bytes(bytes);
    ctx.state(h.finish());
    match read_kind(kind, bytes) {
        Err(p) => {
            refine(ctx, kind, bytes, must_err);
            ctx.violation(
                "no_panic",
                format!("panic|{}|{}|{}", kind, p.file.rsplit('/').next().unwrap_or(""), strip_digits(&p.message)),
                format!("{}::read panicked at {}:{}: {} on a {}-byte prefix", kind, p.file, p.line, p.message, bytes.len()),
            )
        }
        Ok(Ok(v)) => {
            if must_err {
                refine(ctx, kind, bytes, must_err);
                return ctx.violation(
                    "truncated_payload_is_an_error",
                    format!("{}|accepted_truncated_payload", kind),
                    format!("{}::read returned {} textures from a {}-byte prefix that cuts into a texture payload", kind, v.len(), bytes.len()),
                );
            }
            ctx.probe("prefix_accepted_after_last_payload");
            Ok(())
        }
        Ok(Err(_)) => {
            ctx.probe(if must_err { "prefix_rejected_payload_cut" } else { "prefix_rejected_table_or_name_cut" });
            Ok(())
        }
    }
}

fn exec(ctx: &mut RunCtx, w: &mut World, op: &Op) -> Step<()> {
    match op {
        Op::Base { kind, bytes, textures, payload_ends } => {
            w.kind = kind.clone();
            w.cur = bytes.clone();
            w.texs = textures.clone();
            w.ends = payload_ends.clone();
            ctx.outcome("base", kind, &format!("{} textures, {} bytes", textures.len(), bytes.len()));
            Ok(())
        }
        Op::ZeroFault => {
            if w.cur.is_empty() {
                // no peer-written file yet (a minimiser dropped it): nothing to read
                ctx.outcome("zero_fault", "skipped", "");
                return Ok(());
            }
            let kind = w.kind.clone();
            ctx.probe("cases_evaluated");
            let got = match read_kind(&kind, &w.cur) {
                Err(p) => {
                    return ctx.violation(
                        "no_panic",
                        format!("panic|{}|{}|{}", kind, p.file.rsplit('/').next().unwrap_or(""), strip_digits(&p.message)),
                        format!("{}::read panicked at {}:{}: {} on a conforming container of {} textures ({} bytes)", kind, p.file, p.line, p.message, w.texs.len(), w.cur.len()),
                    )
                }
                Ok(Err(e)) => {
                    return ctx.violation(
                        "returns_packed_textures",
                        format!("{}|rejected_conforming_container", kind),
                        format!("{}::read failed on a conforming container of {} textures: {}", kind, w.texs.len(), e),
                    )
                }
                Ok(Ok(v)) => v,
            };
            if got.len() != w.texs.len() {
                return ctx.violation(
                    "returns_packed_textures",
                    format!("{}|wrong_count", kind),
                    format!("{}::read returned {} textures, {} were packed", kind, got.len(), w.texs.len()),
                );
            }
            for (i, (t, g)) in w.texs.iter().zip(got.iter()).enumerate() {
                let want_name = if kind == "tpl" { String::new() } else { t.name.clone() };
                if g.0 != want_name {
                    return ctx.violation("returns_packed_textures", format!("{}|wrong_name_or_order", kind), format!("texture {}: name {:?}, packed {:?}", i, g.0, want_name));
                }
                if g.1 != t.width || g.2 != t.height {
                    return ctx.violation(
                        "returns_packed_textures",
                        format!("{}|wrong_dimensions", kind),
                        format!("texture {}: {}x{} (width x height), packed {}x{}", i, g.1, g.2, t.width, t.height),
                    );
                }
                if g.3.len() != t.width * t.height * 4 {
                    return ctx.violation(
                        "returns_packed_textures",
                        format!("{}|pixel_data_size", kind),
                        format!("texture {} is {}x{} but its pixel data holds {} bytes instead of {} (4 per pixel)", i, t.width, t.height, g.3.len(), t.width * t.height * 4),
                    );
                }
                match reference_pixels(t, kind == "tpl") {
                    Some(px) => {
                        if px != g.3 {
                            return ctx.violation(
                                "returns_packed_textures",
                                format!("{}|wrong_pixel_data", kind),
                                format!("texture {} (format {}, {}x{}): pixel data differs from the decoding of its own payload in a single-texture container", i, t.format, t.width, t.height),
                            );
                        }
                        if t.format == 12 || t.format == 13 {
                            // and equal to the ETC decoder called directly
                            if let Ok(Ok(d)) = guarded(|| mila::decode(&t.payload, t.width, t.height, t.format == 13)) {
                                if d != g.3 {
                                    return ctx.violation("returns_packed_textures", format!("{}|wrong_pixel_data", kind), format!("texture {}: differs from mila::decode of the payload", i));
                                }
                            }
                        }
                    }
                    None => {
                        // the single-texture reference itself could not be read: for CTPK this is the same failure
                        ctx.probe("reference_container_unreadable");
                    }
                }
            }
            if w.fs.is_some() {
                ctx.probe("cases_evaluated");
                let distinct: std::collections::BTreeSet<&str> = w.texs.iter().map(|t| if kind == "tpl" { "" } else { t.name.as_str() }).collect();
                match read_via_fs(w, &kind, &w.cur) {
                    Some(Ok(Ok(n))) => {
                        let want = if kind == "tpl" { w.texs.len() } else { distinct.len() };
                        if n != want {
                            return ctx.violation("returns_packed_textures", format!("fs.{}|wrong_count", kind), format!("fs.read_{}_textures returned {} textures, expected {}", kind, n, want));
                        }
                        ctx.probe("complete_container_through_filesystem");
                    }
                    Some(Ok(Err(e))) => {
                        return ctx.violation("returns_packed_textures", format!("fs.{}|rejected_conforming_container", kind), format!("fs.read_{}_textures failed on a conforming container: {}", kind, e));
                    }
                    Some(Err(p)) => {
                        return ctx.violation("no_panic", format!("panic|fs.{}|{}|{}", kind, p.file.rsplit('/').next().unwrap_or(""), strip_digits(&p.message)), format!("fs.read_{}_textures panicked on a conforming container", kind));
                    }
                    None => {}
                }
            }
            ctx.probe(match w.texs.len() {
                0 => "container_with_0_textures",
                1 => "container_with_1_texture",
                _ => "container_with_2plus_textures",
            });
            ctx.outcome("zero_fault", "ok", "");
            Ok(())
        }
        Op::PrefixAll => {
            let b = w.cur.clone();
            let kind = w.kind.clone();
            let max_end = w.ends.iter().copied().max().unwrap_or(0);
            let step = if b.len() > 8192 { b.len() / 3000 + 1 } else { 1 };
            let mut k = 0;
            while k < b.len() {
                prefix_case(ctx, &kind, &b[..k], k < max_end)?;
                w.tick += 1;
                if w.fs.is_some() && w.tick % 48 == 0 {
                    // the same torn file, as the typed filesystem helper sees it
                    ctx.probe("cases_evaluated");
                    ctx.probe("prefix_read_through_filesystem");
                    match read_via_fs(w, &kind, &b[..k]) {
                        Some(Err(p)) => {
                            return ctx.violation(
                                "no_panic",
                                format!("panic|fs.{}|{}|{}", kind, p.file.rsplit('/').next().unwrap_or(""), strip_digits(&p.message)),
                                format!("fs.read_{}_textures panicked at {}:{}: {} on a {}-byte prefix", kind, p.file, p.line, p.message, k),
                            )
                        }
                        Some(Ok(Ok(n))) if k < max_end => {
                            return ctx.violation(
                                "truncated_payload_is_an_error",
                                format!("fs.{}|accepted_truncated_payload", kind),
                                format!("fs.read_{}_textures returned {} textures from a {}-byte prefix that cuts into a payload", kind, n, k),
                            )
                        }
                        _ => {}
                    }
                }
                k += step;
            }
            ctx.fault("torn_write_prefix");
            ctx.outcome("prefix_all", "ok", "");
            Ok(())
        }
        Op::BadMagic { seed } => {
            let kind = w.kind.clone();
            if kind == "ctpk" || w.cur.len() < 4 {
                return Ok(());
            }
            let mut r = Rng::new(*seed);
            for _ in 0..4 {
                let mut c = w.cur.clone();
                let i = r.below(4);
                let bit = r.below(8);
                c[i] ^= 1 << bit;
                ctx.probe("cases_evaluated");
                match read_kind(&kind, &c) {
                    Err(p) => {
                        return ctx.violation("no_panic", format!("panic|{}|{}|{}", kind, p.file.rsplit('/').next().unwrap_or(""), strip_digits(&p.message)), format!("{}::read panicked on a wrong magic number", kind))
                    }
                    Ok(Ok(_)) => {
                        let raw = serde_json::to_value(Op::RawMagic { kind: kind.clone(), bytes: c.clone() }).unwrap();
                        if let Some(last) = ctx.trace_ops.last_mut() {
                            *last = raw;
                        }
                        return ctx.violation("wrong_magic_rejected", format!("{}|accepted_wrong_magic", kind), format!("{}::read accepted a file whose magic number is {}", kind, hex(&c[..4])));
                    }
                    Ok(Err(_)) => {}
                }
            }
            ctx.fault("wrong_magic");
            ctx.outcome("bad_magic", "ok", "");
            Ok(())
        }
        Op::RawMagic { kind, bytes } => {
            ctx.probe("cases_evaluated");
            match read_kind(kind, bytes) {
                Err(p) => ctx.violation("no_panic", format!("panic|{}|{}|{}", kind, p.file.rsplit('/').next().unwrap_or(""), strip_digits(&p.message)), format!("{}::read panicked on a wrong magic number", kind)),
                Ok(Ok(_)) => ctx.violation("wrong_magic_rejected", format!("{}|accepted_wrong_magic", kind), format!("{}::read accepted a file whose magic number is {}", kind, hex(&bytes[..bytes.len().min(4)]))),
                Ok(Err(_)) => Ok(()),
            }
        }
        Op::Raw { kind, bytes, must_err } => {
            let b = bytes.clone();
            prefix_case(ctx, kind, &b, *must_err)?;
            ctx.outcome("raw", "ok", "");
            Ok(())
        }
    }
}

fn run(cfg: &Value, ctx: &mut RunCtx) -> Step<()> {
    let kind = cfg["kind"].as_str().unwrap_or("ctpk").to_string();
    ctx.max_ops = 16;
    let mut w = World { kind: kind.clone(), cur: Vec::new(), texs: Vec::new(), ends: Vec::new(), fs: None, tick: 0 };
    let dir = ctx.scratch.join("tex");
    if cfg["disk"].as_bool().unwrap_or(false) {
        let _ = std::fs::remove_dir_all(&dir);
        std::fs::create_dir_all(&dir).map_err(|e| Stop::Harness(format!("scratch: {}", e)))?;
        let d = dir.to_string_lossy().to_string();
        if let Ok(Ok(fs)) = guarded(|| mila::LayeredFilesystem::new(vec![d], mila::Language::EnglishNA, mila::Game::FE14)) {
            w.fs = Some((fs, dir.clone()));
        }
    }
    let mut planned: Vec<Op> = Vec::new();
    if !ctx.is_replay() {
        let mut r = Rng::sub(ctx.run_seed, "ops");
        let texs = gen_textures(&mut r, &kind, cfg["max_side"].as_u64().unwrap_or(64) as usize);
        let packed = match kind.as_str() {
            "ctpk" => texpack::pack_ctpk(&mut r, &texs, false),
            "bch" => texpack::pack_bch(&mut r, &texs),
            "cgfx" => texpack::pack_cgfx(&mut r, &texs),
            _ => texpack::pack_tpl(&mut r, &texs, false),
        };
        planned.push(Op::Base { kind: kind.clone(), bytes: packed.bytes, textures: texs, payload_ends: packed.payload_ends });
        planned.push(Op::ZeroFault);
        planned.push(Op::BadMagic { seed: r.next() });
        planned.push(Op::PrefixAll);
        planned.reverse();
    }
    loop {
        let op: Op = match ctx.next_op(|_c| planned.pop())? {
            Some(o) => o,
            None => break,
        };
        if let Err(e) = exec(ctx, &mut w, &op) {
            drop(w);
            let _ = std::fs::remove_dir_all(&dir);
            return Err(e);
        }
    }
    drop(w);
    let _ = std::fs::remove_dir_all(&dir);
    ctx.nontrivial = true;
    Ok(())
}

fn shrink_op(op: &Value) -> Vec<Value> {
    let mut out = Vec::new();
    if let Ok(Op::Base { kind, bytes, textures, payload_ends }) = serde_json::from_value::<Op>(op.clone()) {
        let _ = (kind, bytes, textures, payload_ends);
    }
    out.clear();
    out
}
