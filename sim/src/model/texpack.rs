//! TexPack — packers for CTPK, BCH, CGFX and TPL texture containers with
//! seeded free placement of tables, name pools and payloads (order, gaps,
//! non-zero relative bases). Written from the container layouts; the readers
//! under test are mila's.

use crate::rng::Rng;
use serde::{Deserialize, Serialize};

#[derive(Serialize, Deserialize, Clone, Debug, PartialEq)]
pub struct Tex {
    pub name: String,
    pub width: usize,
    pub height: usize,
    /// 3DS pixel format code (0 RGBA8, 2 RGBA5551, 3 RGB565, 4 RGBA4, 5 LA8, 7 L8, 8 A8, 12 ETC1, 13 ETC1A4);
    /// for TPL: 9 (CI8) with an RGB5A3 palette in `palette`
    pub format: u32,
    #[serde(with = "crate::core::hexser")]
    pub payload: Vec<u8>,
    #[serde(with = "crate::core::hexser", default)]
    pub palette: Vec<u8>,
}

pub const FORMATS_3DS: [u32; 9] = [0, 2, 3, 4, 5, 7, 8, 12, 13];

pub fn payload_size(format: u32, w: usize, h: usize) -> usize {
    let px = w * h;
    match format {
        0 => px * 4,
        1 => px * 3,
        2..=5 => px * 2,
        6..=9 | 11 | 13 => px,
        10 | 12 => px / 2,
        _ => 0,
    }
}

pub fn ci8_size(w: usize, h: usize) -> usize {
    ((h + 3) / 4 * 4) * ((w + 7) / 8 * 8)
}

#[derive(Clone, Debug)]
pub struct Packed {
    pub bytes: Vec<u8>,
    /// end offset (exclusive) of each texture's payload range (and palette for TPL)
    pub payload_ends: Vec<usize>,
}

struct Out {
    buf: Vec<u8>,
}

impl Out {
    fn gap(&mut self, r: &mut Rng, align: usize) {
        if r.chance(1, 2) {
            let n = r.below(24);
            for _ in 0..n {
                self.buf.push(r.next() as u8 | 1);
            }
        }
        while self.buf.len() % align != 0 {
            self.buf.push(0xCD);
        }
    }
    fn place(&mut self, r: &mut Rng, bytes: &[u8], align: usize) -> usize {
        self.gap(r, align);
        let at = self.buf.len();
        self.buf.extend_from_slice(bytes);
        at
    }
    fn reserve(&mut self, r: &mut Rng, n: usize, align: usize) -> usize {
        self.gap(r, align);
        let at = self.buf.len();
        self.buf.resize(at + n, 0);
        at
    }
    fn w32(&mut self, at: usize, v: u32) {
        self.buf[at..at + 4].copy_from_slice(&v.to_le_bytes());
    }
    fn w16(&mut self, at: usize, v: u16) {
        self.buf[at..at + 2].copy_from_slice(&v.to_le_bytes());
    }
    fn w32be(&mut self, at: usize, v: u32) {
        self.buf[at..at + 4].copy_from_slice(&v.to_be_bytes());
    }
    fn w16be(&mut self, at: usize, v: u16) {
        self.buf[at..at + 2].copy_from_slice(&v.to_be_bytes());
    }
}

fn cname(s: &str, sjis: bool) -> Vec<u8> {
    let mut b = if sjis {
        let (e, _, _) = encoding_rs::SHIFT_JIS.encode(s);
        e.into_owned()
    } else {
        s.as_bytes().to_vec()
    };
    b.push(0);
    b
}

/// order in which the variable blobs are placed
fn shuffled(r: &mut Rng, n: usize, canonical: bool) -> Vec<usize> {
    let mut v: Vec<usize> = (0..n).collect();
    if !canonical {
        r.shuffle(&mut v);
    }
    v
}

pub fn pack_ctpk(r: &mut Rng, texs: &[Tex], canonical: bool) -> Packed {
    let n = texs.len();
    let mut o = Out { buf: vec![0; 0x20 + n * 0x20] };
    o.buf[0..4].copy_from_slice(b"CTPK");
    o.w16(4, 1);
    o.w16(6, n as u16);
    // blobs: names and payloads in a seeded order
    let mut name_at = vec![0usize; n];
    let mut pay_at = vec![0usize; n];
    let order = shuffled(r, 2 * n, canonical);
    let mut quiet = Rng::new(1);
    for k in order {
        let rr: &mut Rng = if canonical { &mut quiet } else { r };
        if k < n {
            name_at[k] = if canonical { let at = o.buf.len(); o.buf.extend(cname(&texs[k].name, true)); at } else { o.place(rr, &cname(&texs[k].name, true), 1) };
        } else {
            let i = k - n;
            pay_at[i] = if canonical {
                while o.buf.len() % 4 != 0 {
                    o.buf.push(0);
                }
                let at = o.buf.len();
                o.buf.extend_from_slice(&texs[i].payload);
                at
            } else {
                o.place(rr, &texs[i].payload, 4)
            };
        }
    }
    let min_pay = pay_at.iter().copied().min().unwrap_or(o.buf.len());
    let base = if canonical || n == 0 { min_pay } else { r.below(min_pay + 1) };
    o.w32(8, base as u32);
    o.w32(12, (o.buf.len() - base) as u32);
    for i in 0..n {
        let e = 0x20 + i * 0x20;
        o.w32(e, name_at[i] as u32);
        o.w32(e + 4, texs[i].payload.len() as u32);
        o.w32(e + 8, (pay_at[i] - base) as u32);
        o.w32(e + 12, texs[i].format);
        o.w16(e + 16, texs[i].width as u16);
        o.w16(e + 18, texs[i].height as u16);
        o.buf[e + 20] = 1;
    }
    let payload_ends = (0..n).map(|i| pay_at[i] + texs[i].payload.len()).collect();
    Packed { bytes: o.buf, payload_ends }
}

pub fn pack_bch(r: &mut Rng, texs: &[Tex]) -> Packed {
    let n = texs.len();
    let ext = r.chance(1, 2);
    let hdr = if ext { 0x44 } else { 0x3C };
    let mut o = Out { buf: vec![0; hdr] };
    o.w32(0, 0x0048_4342);
    o.buf[4] = if ext { 0x21 } else { 7 };
    // sections in a seeded order: 0 contents, 1 strings, 2 commands, 3 raw data
    let mut sec_at = [0usize; 4];
    let mut sec_len = [0usize; 4];
    // contents section: [0x24: table offset, count] + pointer table + descriptors, internally shuffled
    let mut contents = Out { buf: vec![0; 0x2C] };
    let table_off = contents.reserve(r, n * 4, 4);
    let mut desc_at = vec![0usize; n];
    for i in shuffled(r, n, false) {
        desc_at[i] = contents.reserve(r, 32, 4);
    }
    contents.w32(0x24, table_off as u32);
    contents.w32(0x28, n as u32);
    // strings
    let mut strings = Out { buf: Vec::new() };
    if r.chance(1, 2) {
        strings.buf.extend_from_slice(b"pad\0");
    }
    let mut name_off = vec![0usize; n];
    for i in shuffled(r, n, false) {
        name_off[i] = strings.place(r, &cname(&texs[i].name, false), 1);
    }
    // commands
    let mut commands = Out { buf: Vec::new() };
    let mut cmd_off = vec![0usize; n];
    for i in shuffled(r, n, false) {
        cmd_off[i] = commands.reserve(r, 0x1C, 4);
    }
    // raw data
    let mut raw = Out { buf: Vec::new() };
    let mut data_off = vec![0usize; n];
    for i in shuffled(r, n, false) {
        data_off[i] = raw.place(r, &texs[i].payload, 4);
    }
    for i in 0..n {
        contents.w32(table_off + i * 4, desc_at[i] as u32);
        contents.w32(desc_at[i], cmd_off[i] as u32);
        contents.w32(desc_at[i] + 28, name_off[i] as u32);
        commands.w16(cmd_off[i], texs[i].height as u16);
        commands.w16(cmd_off[i] + 2, texs[i].width as u16);
        commands.w32(cmd_off[i] + 0x10, data_off[i] as u32);
        commands.w32(cmd_off[i] + 0x18, texs[i].format);
    }
    let secs: [&Vec<u8>; 4] = [&contents.buf, &strings.buf, &commands.buf, &raw.buf];
    for s in shuffled(r, 4, false) {
        sec_at[s] = o.place(r, secs[s], 4);
        sec_len[s] = secs[s].len();
    }
    // header fields
    let mut p = 8;
    for s in 0..4 {
        o.w32(p, sec_at[s] as u32);
        p += 4;
    }
    if ext {
        p += 4; // raw ext address
    }
    p += 4; // relocation address
    for s in 0..4 {
        o.w32(p, sec_len[s] as u32);
        p += 4;
    }
    let payload_ends = (0..n).map(|i| sec_at[3] + data_off[i] + texs[i].payload.len()).collect();
    Packed { bytes: o.buf, payload_ends }
}

pub fn pack_cgfx(r: &mut Rng, texs: &[Tex]) -> Packed {
    let n = texs.len();
    let mut o = Out { buf: vec![0; 0x14 + 8 + 16 * 8] };
    o.buf[0..4].copy_from_slice(b"CGFX");
    o.w16(4, 0xFEFF);
    o.w16(6, 0x14);
    o.buf[0x14..0x18].copy_from_slice(b"DATA");
    // blobs: 0 = DICT, 1..=n TXOB, n+1..=2n names, 2n+1..=3n payloads
    let mut dict_at = 0usize;
    let mut txob_at = vec![0usize; n];
    let mut name_at = vec![0usize; n];
    let mut pay_at = vec![0usize; n];
    for k in shuffled(r, 3 * n + 1, false) {
        if k == 0 {
            dict_at = o.reserve(r, 0xC + 0x10 + n * 0x10, 4);
        } else if k <= n {
            txob_at[k - 1] = o.reserve(r, 0x4C, 4);
        } else if k <= 2 * n {
            name_at[k - n - 1] = o.place(r, &cname(&texs[k - n - 1].name, false), 1);
        } else {
            pay_at[k - 2 * n - 1] = o.place(r, &texs[k - 2 * n - 1].payload, 4);
        }
    }
    // DATA entry 1 (textures): count, self-relative offset to the DICT
    let e1 = 0x14 + 8 + 8;
    o.w32(e1, n as u32);
    o.w32(e1 + 4, (dict_at as i64 - (e1 as i64 + 4)) as u32);
    o.buf[dict_at..dict_at + 4].copy_from_slice(b"DICT");
    o.w32(dict_at + 4, (0xC + 0x10 + n * 0x10) as u32);
    o.w32(dict_at + 8, n as u32);
    for i in 0..n {
        let e = dict_at + 0xC + 0x10 + i * 0x10;
        o.w32(e + 8, (name_at[i] as i64 - (e as i64 + 8)) as u32);
        o.w32(e + 12, (txob_at[i] as i64 - (e as i64 + 12)) as u32);
        let t = txob_at[i];
        o.w32(t, 0x2000_0011);
        o.buf[t + 4..t + 8].copy_from_slice(b"TXOB");
        o.w32(t + 0xC, (name_at[i] as i64 - (t as i64 + 0xC)) as u32);
        o.w32(t + 0x18, texs[i].height as u32);
        o.w32(t + 0x1C, texs[i].width as u32);
        o.w32(t + 0x28, 1);
        o.w32(t + 0x34, texs[i].format);
        o.w32(t + 0x44, texs[i].payload.len() as u32);
        o.w32(t + 0x48, (pay_at[i] as i64 - (t as i64 + 0x48)) as u32);
    }
    let len = o.buf.len() as u32;
    o.w32(0xC, len);
    let payload_ends = (0..n).map(|i| pay_at[i] + texs[i].payload.len()).collect();
    Packed { bytes: o.buf, payload_ends }
}

pub fn pack_tpl(r: &mut Rng, texs: &[Tex], canonical: bool) -> Packed {
    let n = texs.len();
    let mut o = Out { buf: vec![0; 12] };
    o.w32be(0, 0x0020_AF30);
    o.w32be(4, n as u32);
    let mut quiet = Rng::new(1);
    // blobs: 0 table, per texture: image header, palette header, image data, palette data
    let mut table_at = 0usize;
    let mut ih = vec![0usize; n];
    let mut ph = vec![0usize; n];
    let mut id = vec![0usize; n];
    let mut pd = vec![0usize; n];
    for k in shuffled(r, 4 * n + 1, canonical) {
        let rr: &mut Rng = if canonical { &mut quiet } else { r };
        let gapless = canonical;
        let mut put = |o: &mut Out, rr: &mut Rng, bytes: &[u8]| -> usize {
            if gapless {
                while o.buf.len() % 4 != 0 {
                    o.buf.push(0);
                }
                let at = o.buf.len();
                o.buf.extend_from_slice(bytes);
                at
            } else {
                o.place(rr, bytes, 4)
            }
        };
        if k == 0 {
            table_at = put(&mut o, rr, &vec![0u8; n * 8]);
        } else {
            let i = (k - 1) / 4;
            match (k - 1) % 4 {
                0 => ih[i] = put(&mut o, rr, &[0u8; 36]),
                1 => ph[i] = put(&mut o, rr, &[0u8; 12]),
                2 => id[i] = put(&mut o, rr, &texs[i].payload),
                _ => pd[i] = put(&mut o, rr, &texs[i].palette),
            }
        }
    }
    o.w32be(8, table_at as u32);
    for i in 0..n {
        o.w32be(table_at + i * 8, ih[i] as u32);
        o.w32be(table_at + i * 8 + 4, ph[i] as u32);
        o.w16be(ph[i], (texs[i].palette.len() / 2) as u16);
        o.w32be(ph[i] + 4, 2); // RGB5A3
        o.w32be(ph[i] + 8, pd[i] as u32);
        o.w16be(ih[i], texs[i].height as u16);
        o.w16be(ih[i] + 2, texs[i].width as u16);
        o.w32be(ih[i] + 4, 9); // CI8
        o.w32be(ih[i] + 8, id[i] as u32);
        o.w32be(ih[i] + 20, 1);
        o.w32be(ih[i] + 24, 1);
    }
    let payload_ends = (0..n).map(|i| (id[i] + texs[i].payload.len()).max(pd[i] + texs[i].palette.len())).collect();
    Packed { bytes: o.buf, payload_ends }
}
