//! BinImage — independent reference reader and canonical writer for the
//! bin-archive file image (header, data, pointer table, label table, text pool).

use std::collections::BTreeMap;

#[derive(Clone, Debug)]
pub struct Image {
    pub file_size_field: u32,
    pub data_size: usize,
    pub pointer_count: usize,
    pub label_count: usize,
    pub data: Vec<u8>,
    pub pointer_table: Vec<u32>,
    pub label_table: Vec<(u32, u32)>,
    pub text_pool: Vec<u8>,
    /// offset of the text pool relative to the start of the data region
    pub text_start_rel: usize,
    pub header_rest_zero: bool,
}

pub fn rd32(b: &[u8], off: usize, big: bool) -> Option<u32> {
    let s = b.get(off..off.checked_add(4)?)?;
    let a = [s[0], s[1], s[2], s[3]];
    Some(if big { u32::from_be_bytes(a) } else { u32::from_le_bytes(a) })
}

pub fn wr32(v: u32, big: bool) -> [u8; 4] {
    if big {
        v.to_be_bytes()
    } else {
        v.to_le_bytes()
    }
}

pub fn parse_image(bytes: &[u8], big: bool) -> Result<Image, String> {
    if bytes.len() < 0x20 {
        return Err("shorter than header".into());
    }
    let file_size_field = rd32(bytes, 0, big).unwrap();
    let data_size = rd32(bytes, 4, big).unwrap() as usize;
    let pointer_count = rd32(bytes, 8, big).unwrap() as usize;
    let label_count = rd32(bytes, 12, big).unwrap() as usize;
    let header_rest_zero = bytes[16..0x20].iter().all(|b| *b == 0);
    let tables = pointer_count
        .checked_mul(4)
        .and_then(|p| label_count.checked_mul(8).and_then(|l| p.checked_add(l)))
        .ok_or("table size overflow")?;
    let text_start_rel = data_size.checked_add(tables).ok_or("overflow")?;
    if 0x20 + text_start_rel > bytes.len() {
        return Err(format!(
            "header declares {} bytes before the text pool, file has {}",
            0x20 + text_start_rel,
            bytes.len()
        ));
    }
    let data = bytes[0x20..0x20 + data_size].to_vec();
    let mut off = 0x20 + data_size;
    let mut pointer_table = Vec::new();
    for _ in 0..pointer_count {
        pointer_table.push(rd32(bytes, off, big).unwrap());
        off += 4;
    }
    let mut label_table = Vec::new();
    for _ in 0..label_count {
        label_table.push((rd32(bytes, off, big).unwrap(), rd32(bytes, off + 4, big).unwrap()));
        off += 8;
    }
    let text_pool = bytes[off..].to_vec();
    Ok(Image {
        file_size_field,
        data_size,
        pointer_count,
        label_count,
        data,
        pointer_table,
        label_table,
        text_pool,
        text_start_rel,
        header_rest_zero,
    })
}

pub fn cstr_at(buf: &[u8], off: usize) -> Option<&[u8]> {
    let rest = buf.get(off..)?;
    let n = rest.iter().position(|b| *b == 0)?;
    Some(&rest[..n])
}

pub fn sjis_decode(b: &[u8]) -> String {
    let (s, _, _) = encoding_rs::SHIFT_JIS.decode(b);
    s.into_owned()
}

pub fn sjis_encode(s: &str) -> Option<Vec<u8>> {
    let (b, _, bad) = encoding_rs::SHIFT_JIS.encode(s);
    if bad {
        None
    } else {
        Some(b.into_owned())
    }
}

/// true when Shift-JIS represents the string losslessly (and it is NUL-free)
pub fn sjis_lossless(s: &str) -> bool {
    if s.contains('\0') {
        return false;
    }
    match sjis_encode(s) {
        Some(b) => !b.contains(&0) && sjis_decode(&b) == s,
        None => false,
    }
}

impl Image {
    pub fn cell(&self, addr: usize, big: bool) -> Option<u32> {
        rd32(&self.data, addr, big)
    }

    /// Pointer-table entries whose cell value points into [orig_size, data_size):
    /// the c-string pool appended to the data by the writer. `skip` = source
    /// cells known to be ordinary pointers / strings.
    pub fn cstring_entries(
        &self,
        orig_size: usize,
        big: bool,
        skip: &dyn Fn(usize) -> bool,
    ) -> Result<Vec<(usize, String)>, String> {
        let mut out = Vec::new();
        for src in &self.pointer_table {
            let src = *src as usize;
            if skip(src) {
                continue;
            }
            let v = self.cell(src, big).ok_or(format!("pointer table entry {:#x} outside data", src))? as usize;
            if v >= orig_size && v < self.data_size {
                let raw = cstr_at(&self.data, v).ok_or(format!("unterminated c-string at {:#x}", v))?;
                out.push((src, sjis_decode(raw)));
            } else {
                return Err(format!(
                    "pointer table entry {:#x} -> {:#x} is neither a known pointer/string nor inside the c-string pool [{:#x},{:#x})",
                    src, v, orig_size, self.data_size
                ));
            }
        }
        out.sort();
        Ok(out)
    }
}

/// Content of an archive as the canonical writer needs it (no c-strings).
#[derive(Clone, Debug, Default, PartialEq)]
pub struct Content {
    pub big: bool,
    pub data: Vec<u8>,
    pub text: BTreeMap<usize, String>,
    pub pointers: BTreeMap<usize, usize>,
    /// per-address order is significant
    pub labels: BTreeMap<usize, Vec<String>>,
}

/// Canonical image per C02: header totals; internal pointers by ascending
/// address, then string pointers grouped by string in first-use order, each
/// group ascending; labels by address (LE) or by name (BE; ties: by address,
/// bucket order kept — only used for comparison when unambiguous); text pool =
/// label names in label-table order, then strings in first-use order, each
/// distinct string once.
pub fn canonical_image(c: &Content) -> Option<Vec<u8>> {
    let big = c.big;
    let mut data = c.data.clone();
    let mut ptr_table: Vec<u32> = Vec::new();
    for (src, dst) in &c.pointers {
        data.get_mut(*src..*src + 4)?.copy_from_slice(&wr32(*dst as u32, big));
        ptr_table.push(*src as u32);
    }
    let mut label_entries: Vec<(usize, &String)> = Vec::new();
    if big {
        let mut buckets: Vec<(&usize, &Vec<String>)> = c.labels.iter().collect();
        buckets.sort_by(|a, b| a.1.cmp(b.1).then(a.0.cmp(b.0)));
        for (a, b) in buckets {
            for s in b {
                label_entries.push((*a, s));
            }
        }
    } else {
        for (a, b) in &c.labels {
            for s in b {
                label_entries.push((*a, s));
            }
        }
    }
    let mut pool: Vec<u8> = Vec::new();
    let mut offsets: BTreeMap<String, usize> = BTreeMap::new();
    let mut add = |pool: &mut Vec<u8>, s: &String| -> Option<usize> {
        if let Some(o) = offsets.get(s) {
            return Some(*o);
        }
        let o = pool.len();
        pool.extend(sjis_encode(s)?);
        pool.push(0);
        offsets.insert(s.clone(), o);
        Some(o)
    };
    let mut label_table: Vec<u8> = Vec::new();
    for (a, s) in &label_entries {
        let o = add(&mut pool, s)?;
        label_table.extend_from_slice(&wr32(*a as u32, big));
        label_table.extend_from_slice(&wr32(o as u32, big));
    }
    let text_start = c.data.len() + (c.pointers.len() + c.text.len()) * 4 + label_entries.len() * 8;
    let mut groups: Vec<(usize, Vec<u32>)> = Vec::new();
    for (addr, s) in &c.text {
        let o = add(&mut pool, s)?;
        data.get_mut(*addr..*addr + 4)?.copy_from_slice(&wr32((text_start + o) as u32, big));
        match groups.iter_mut().find(|g| g.0 == o) {
            Some(g) => g.1.push(*addr as u32),
            None => groups.push((o, vec![*addr as u32])),
        }
    }
    for g in &mut groups {
        g.1.sort();
        ptr_table.extend(g.1.iter());
    }
    let file_size = 0x20 + data.len() + ptr_table.len() * 4 + label_table.len() + pool.len();
    let mut out = Vec::with_capacity(file_size);
    out.extend_from_slice(&wr32(file_size as u32, big));
    out.extend_from_slice(&wr32(data.len() as u32, big));
    out.extend_from_slice(&wr32(ptr_table.len() as u32, big));
    out.extend_from_slice(&wr32(label_entries.len() as u32, big));
    out.resize(0x20, 0);
    out.extend_from_slice(&data);
    for p in &ptr_table {
        out.extend_from_slice(&wr32(*p, big));
    }
    out.extend_from_slice(&label_table);
    out.extend_from_slice(&pool);
    Some(out)
}
