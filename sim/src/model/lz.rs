//! Lz — token-level reference expander + validator for LZ10 / LZ11 streams and
//! the LZ13 entry point's container forms, and a token-level encoder that can
//! emit every legal token form. Shares no code with mila or nintendo_lz.

#[derive(Clone, Debug, PartialEq)]
pub enum Verdict {
    /// tokens produce exactly the declared length, nothing left over
    Conforming(Vec<u8>),
    /// empty, shorter than a header, unknown type, input exhausted before the
    /// declared length, back-reference before the start of the output
    Malformed(&'static str),
    /// anything else (left-over bytes, a last copy overshooting the declared
    /// length, extended-length header): the statement says nothing about it
    Other(&'static str),
}

impl Verdict {
    pub fn class(&self) -> &'static str {
        match self {
            Verdict::Conforming(_) => "conforming",
            Verdict::Malformed(_) => "malformed",
            Verdict::Other(_) => "other",
        }
    }
}

/// a bare stream whose first byte is 0x10 or 0x11
pub fn classify_stream(b: &[u8]) -> Verdict {
    if b.is_empty() {
        return Verdict::Malformed("empty");
    }
    if b.len() < 4 {
        return Verdict::Malformed("shorter than a header");
    }
    let lz11 = match b[0] {
        0x10 => false,
        0x11 => true,
        _ => return Verdict::Malformed("unknown type"),
    };
    let mut declared = b[1] as usize | (b[2] as usize) << 8 | (b[3] as usize) << 16;
    let mut p = 4usize;
    if lz11 && declared == 0 {
        // extended header: a 32-bit length follows. A conforming encoder uses it for the
        // empty payload and for payloads of 16 MiB and more; anything else is not judged
        if b.len() < 8 {
            return Verdict::Other("LZ11 zero length without the extended field");
        }
        declared = u32::from_le_bytes([b[4], b[5], b[6], b[7]]) as usize;
        p = 8;
        if declared != 0 && declared < (1 << 24) {
            return Verdict::Other("LZ11 extended-length header for a payload that fits 24 bits");
        }
        if declared > (1 << 26) {
            return Verdict::Other("LZ11 extended-length header beyond 64 MiB");
        }
    }
    let mut out: Vec<u8> = Vec::with_capacity(declared.min(1 << 20));
    while out.len() < declared {
        let flags = match b.get(p) {
            Some(f) => *f,
            None => return Verdict::Malformed("truncated"),
        };
        p += 1;
        for bit in (0..8).rev() {
            if out.len() >= declared {
                break;
            }
            if (flags >> bit) & 1 == 0 {
                match b.get(p) {
                    Some(x) => out.push(*x),
                    None => return Verdict::Malformed("truncated"),
                }
                p += 1;
            } else {
                let need = |n: usize| b.len() >= p + n;
                if !need(2) {
                    return Verdict::Malformed("truncated");
                }
                let b0 = b[p] as usize;
                let b1 = b[p + 1] as usize;
                let (len, disp);
                if !lz11 {
                    len = (b0 >> 4) + 3;
                    disp = ((b0 & 0xF) << 8 | b1) + 1;
                    p += 2;
                } else {
                    match b0 >> 4 {
                        0 => {
                            if !need(3) {
                                return Verdict::Malformed("truncated");
                            }
                            let b2 = b[p + 2] as usize;
                            len = ((b0 & 0xF) << 4 | b1 >> 4) + 0x11;
                            disp = ((b1 & 0xF) << 8 | b2) + 1;
                            p += 3;
                        }
                        1 => {
                            if !need(4) {
                                return Verdict::Malformed("truncated");
                            }
                            let b2 = b[p + 2] as usize;
                            let b3 = b[p + 3] as usize;
                            len = ((b0 & 0xF) << 12 | b1 << 4 | b2 >> 4) + 0x111;
                            disp = ((b2 & 0xF) << 8 | b3) + 1;
                            p += 4;
                        }
                        n => {
                            len = n + 1;
                            disp = ((b0 & 0xF) << 8 | b1) + 1;
                            p += 2;
                        }
                    }
                }
                if disp > out.len() {
                    return Verdict::Malformed("back-reference before the start of the output");
                }
                if out.len() + len > declared {
                    return Verdict::Other("last copy overshoots the declared length");
                }
                let start = out.len() - disp;
                for i in 0..len {
                    let v = out[start + i];
                    out.push(v);
                }
            }
        }
    }
    if p != b.len() {
        return Verdict::Other("bytes left over after the last token");
    }
    Verdict::Conforming(out)
}

/// what LZ10CompressionFormat::decompress is given
pub fn classify_lz10_entry(b: &[u8]) -> Verdict {
    classify_stream(b)
}

/// what LZ13CompressionFormat::decompress is given: 0x13 wrapper + LZ11 stream,
/// a bare LZ10/LZ11 stream, or the type-0 stored form
pub fn classify_lz13_entry(b: &[u8]) -> Verdict {
    if b.is_empty() {
        return Verdict::Malformed("empty");
    }
    if b.len() < 4 {
        return Verdict::Malformed("shorter than a header");
    }
    match b[0] {
        0x00 => {
            let declared = b[1] as usize | (b[2] as usize) << 8 | (b[3] as usize) << 16;
            if declared == b.len() - 4 {
                Verdict::Conforming(b[4..].to_vec())
            } else {
                Verdict::Other("stored form whose length field differs from the payload length")
            }
        }
        0x13 => {
            let inner = &b[4..];
            match inner.first() {
                Some(0x11) => classify_stream(inner),
                Some(0x10) => match classify_stream(inner) {
                    Verdict::Conforming(_) => Verdict::Other("0x13 wrapper around an LZ10 stream"),
                    v => match v {
                        Verdict::Malformed(_) => Verdict::Other("0x13 wrapper around an LZ10 stream"),
                        o => o,
                    },
                },
                None => Verdict::Malformed("wrapper without a stream"),
                Some(_) => Verdict::Malformed("unknown type inside the wrapper"),
            }
        }
        0x10 | 0x11 => classify_stream(b),
        _ => Verdict::Malformed("unknown type"),
    }
}

// ---------------------------------------------------------------------------
// token-level encoder

#[derive(Clone, Debug, PartialEq)]
pub enum Token {
    Lit(u8),
    /// (length, displacement >= 1)
    Ref(usize, usize),
}

/// expand a token list (panics on an illegal reference: generators only build legal ones)
pub fn expand_tokens(tokens: &[Token]) -> Vec<u8> {
    let mut out = Vec::new();
    for t in tokens {
        match t {
            Token::Lit(b) => out.push(*b),
            Token::Ref(len, disp) => {
                let start = out.len() - disp;
                for i in 0..*len {
                    let v = out[start + i];
                    out.push(v);
                }
            }
        }
    }
    out
}

/// encode as a bare LZ10 (lz11 = false: lengths 3..=18) or LZ11 stream
/// (lengths 3..=65808; the three LZ11 length forms cover disjoint ranges, so
/// the form follows from the length). Unused bits of the last flag byte are
/// filled from `pad_bits`.
pub fn encode_tokens(tokens: &[Token], lz11: bool, pad_bits: u8) -> Vec<u8> {
    let data_len: usize = tokens
        .iter()
        .map(|t| match t {
            Token::Lit(_) => 1,
            Token::Ref(l, _) => *l,
        })
        .sum();
    let mut out = if lz11 && data_len >= (1 << 24) {
        let mut h = vec![0x11, 0, 0, 0];
        h.extend_from_slice(&(data_len as u32).to_le_bytes());
        h
    } else {
        vec![if lz11 { 0x11 } else { 0x10 }, (data_len & 0xFF) as u8, ((data_len >> 8) & 0xFF) as u8, ((data_len >> 16) & 0xFF) as u8]
    };
    let mut i = 0;
    while i < tokens.len() {
        let group = &tokens[i..(i + 8).min(tokens.len())];
        let mut flags = 0u8;
        let mut body: Vec<u8> = Vec::new();
        for (k, t) in group.iter().enumerate() {
            match t {
                Token::Lit(b) => body.push(*b),
                Token::Ref(len, disp) => {
                    flags |= 1 << (7 - k);
                    let d = disp - 1;
                    if !lz11 {
                        let l = len - 3;
                        body.push(((l << 4) | (d >> 8)) as u8);
                        body.push((d & 0xFF) as u8);
                    } else {
                        let form = if *len > 0x110 { 2 } else if *len > 0x10 { 1 } else { 0 };
                        match form {
                            0 => {
                                let l = len - 1;
                                body.push(((l << 4) | (d >> 8)) as u8);
                                body.push((d & 0xFF) as u8);
                            }
                            1 => {
                                let l = len - 0x11;
                                body.push((l >> 4) as u8);
                                body.push((((l & 0xF) << 4) | (d >> 8)) as u8);
                                body.push((d & 0xFF) as u8);
                            }
                            _ => {
                                let l = len - 0x111;
                                body.push((0x10 | (l >> 12)) as u8);
                                body.push(((l >> 4) & 0xFF) as u8);
                                body.push((((l & 0xF) << 4) | (d >> 8)) as u8);
                                body.push((d & 0xFF) as u8);
                            }
                        }
                    }
                }
            }
        }
        if group.len() < 8 {
            let unused = 8 - group.len();
            flags |= pad_bits & ((1u16 << unused) - 1) as u8;
        }
        out.push(flags);
        out.extend(body);
        i += 8;
    }
    out
}

pub fn wrap_lz13(inner: &[u8], wrapper_len_field: u32) -> Vec<u8> {
    let mut out = vec![0x13, (wrapper_len_field & 0xFF) as u8, ((wrapper_len_field >> 8) & 0xFF) as u8, ((wrapper_len_field >> 16) & 0xFF) as u8];
    out.extend_from_slice(inner);
    out
}

pub fn stored_form(data: &[u8]) -> Vec<u8> {
    let n = data.len();
    let mut out = vec![0x00, (n & 0xFF) as u8, ((n >> 8) & 0xFF) as u8, ((n >> 16) & 0xFF) as u8];
    out.extend_from_slice(data);
    out
}

/// simple greedy reference compressor used by the environment to place valid
/// compressed files (not mila's compressor): emits literals and references
pub fn greedy_tokens(data: &[u8], max_len: usize, min_disp: usize) -> Vec<Token> {
    let mut tokens = Vec::new();
    let mut i = 0;
    while i < data.len() {
        let mut best = (0usize, 0usize);
        let lo = i.saturating_sub(4096);
        let mut j = lo;
        while j + min_disp <= i && j < i {
            let disp = i - j;
            if disp >= min_disp {
                let mut l = 0;
                while i + l < data.len() && l < max_len && data[j + l] == data[i + l] {
                    l += 1;
                }
                if l > best.0 {
                    best = (l, disp);
                }
            }
            j += 1;
        }
        if best.0 >= 3 {
            tokens.push(Token::Ref(best.0, best.1));
            i += best.0;
        } else {
            tokens.push(Token::Lit(data[i]));
            i += 1;
        }
    }
    tokens
}
