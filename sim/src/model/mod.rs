//! Reference models and independent readers/writers. Written from the
//! property statements and the format rules; shares no code with mila.

pub mod arch_model;
pub mod bin_image;
pub mod lz;
pub mod fs_model;
pub mod texpack;
