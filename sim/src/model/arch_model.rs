//! ArchModel — executable reference model of a bin archive's observable state,
//! written from the statements of C03 / C04 (not from mila's code):
//! bytes + ordered annotation maps + pending c-string list.

use std::collections::{BTreeMap, BTreeSet};

#[derive(Clone, Copy, Debug, PartialEq, Eq)]
pub enum ErrKind {
    /// range not inside the data region
    Oob,
    /// misaligned insert/remove request
    Unaligned,
    /// label index beyond the bucket
    LabelIndex,
    /// anything else (unterminated c-string ...)
    Other,
}

pub type MRes<T> = Result<T, ErrKind>;

#[derive(Clone, Debug, PartialEq)]
pub struct ArchModel {
    pub big: bool,
    pub data: Vec<u8>,
    pub text: BTreeMap<usize, String>,
    pub pointers: BTreeMap<usize, usize>,
    /// buckets may be empty after delete_label; an empty bucket is
    /// observationally "no labels" (the oracle normalises)
    pub labels: BTreeMap<usize, Vec<String>>,
    /// pending c-strings: (cell address, text), multiset
    pub cstrings: Vec<(usize, String)>,
}

impl ArchModel {
    pub fn new(big: bool) -> ArchModel {
        ArchModel {
            big,
            data: Vec::new(),
            text: BTreeMap::new(),
            pointers: BTreeMap::new(),
            labels: BTreeMap::new(),
            cstrings: Vec::new(),
        }
    }

    pub fn size(&self) -> usize {
        self.data.len()
    }

    /// C04: an access of `w` bytes at `a` succeeds exactly when the whole
    /// non-empty range lies inside the data region. (w == 0 is outside the
    /// statement; callers treat it separately.)
    pub fn in_range(&self, a: usize, w: usize) -> bool {
        match a.checked_add(w) {
            Some(end) => a < self.size() && end <= self.size(),
            None => false,
        }
    }

    fn need(&self, a: usize, w: usize) -> MRes<()> {
        if self.in_range(a, w) {
            Ok(())
        } else {
            Err(ErrKind::Oob)
        }
    }

    // ---- raw values, laid out in the archive's endianness (encoded independently)

    pub fn read_uint(&self, a: usize, w: usize) -> MRes<u32> {
        self.need(a, w)?;
        let mut v: u32 = 0;
        for i in 0..w {
            let b = self.data[a + i] as u32;
            if self.big {
                v = (v << 8) | b;
            } else {
                v |= b << (8 * i);
            }
        }
        Ok(v)
    }

    pub fn write_uint(&mut self, a: usize, w: usize, v: u32) -> MRes<()> {
        self.need(a, w)?;
        for i in 0..w {
            let shift = if self.big { 8 * (w - 1 - i) } else { 8 * i };
            self.data[a + i] = ((v >> shift) & 0xFF) as u8;
        }
        Ok(())
    }

    pub fn read_bytes(&self, a: usize, n: usize) -> MRes<Vec<u8>> {
        self.need(a, n)?;
        Ok(self.data[a..a + n].to_vec())
    }

    pub fn write_bytes(&mut self, a: usize, b: &[u8]) -> MRes<()> {
        self.need(a, b.len())?;
        self.data[a..a + b.len()].copy_from_slice(b);
        Ok(())
    }

    // ---- annotations (width of a cell is 4)

    pub fn read_string(&self, a: usize) -> MRes<Option<String>> {
        self.need(a, 4)?;
        Ok(self.text.get(&a).cloned())
    }

    pub fn read_pointer(&self, a: usize) -> MRes<Option<usize>> {
        self.need(a, 4)?;
        Ok(self.pointers.get(&a).copied())
    }

    pub fn read_labels(&self, a: usize) -> MRes<Option<Vec<String>>> {
        self.need(a, 4)?;
        Ok(self.labels.get(&a).cloned())
    }

    /// pointer cell whose target holds NUL-terminated Shift-JIS text in the data
    pub fn read_c_string(&self, a: usize) -> MRes<Option<String>> {
        self.need(a, 4)?;
        match self.pointers.get(&a) {
            None => Ok(None),
            Some(&p) => {
                if p >= self.size() {
                    return Err(ErrKind::Oob);
                }
                match self.data[p..].iter().position(|b| *b == 0) {
                    None => Err(ErrKind::Other),
                    Some(n) => {
                        let (s, _, _) = encoding_rs::SHIFT_JIS.decode(&self.data[p..p + n]);
                        Ok(Some(s.into_owned()))
                    }
                }
            }
        }
    }

    pub fn write_string(&mut self, a: usize, s: Option<&str>) -> MRes<()> {
        self.need(a, 4)?;
        match s {
            Some(s) => {
                self.text.insert(a, s.to_string());
            }
            None => {
                self.text.remove(&a);
            }
        }
        Ok(())
    }

    pub fn write_pointer(&mut self, a: usize, v: Option<usize>) -> MRes<()> {
        self.need(a, 4)?;
        match v {
            Some(v) => {
                self.pointers.insert(a, v);
            }
            None => {
                self.pointers.remove(&a);
            }
        }
        Ok(())
    }

    pub fn write_c_string(&mut self, a: usize, s: &str) -> MRes<()> {
        self.need(a, 4)?;
        self.cstrings.push((a, s.to_string()));
        Ok(())
    }

    /// labels may sit on any address up to and including the end address
    pub fn write_label(&mut self, a: usize, s: &str) -> MRes<()> {
        if a > self.size() {
            return Err(ErrKind::Oob);
        }
        self.labels.entry(a).or_default().push(s.to_string());
        Ok(())
    }

    pub fn write_labels(&mut self, a: usize, v: Vec<String>) -> MRes<()> {
        if a > self.size() {
            return Err(ErrKind::Oob);
        }
        self.labels.insert(a, v);
        Ok(())
    }

    pub fn delete_labels(&mut self, a: usize) -> MRes<()> {
        self.need(a, 4)?;
        self.labels.remove(&a);
        Ok(())
    }

    pub fn delete_label(&mut self, a: usize, i: usize) -> MRes<()> {
        self.need(a, 4)?;
        match self.labels.get_mut(&a) {
            None => Ok(()),
            Some(b) => {
                if i < b.len() {
                    b.remove(i);
                    Ok(())
                } else {
                    Err(ErrKind::LabelIndex)
                }
            }
        }
    }

    // ---- C03

    pub fn allocate_at_end(&mut self, n: usize) {
        self.data.extend(std::iter::repeat(0).take(n));
    }

    /// insert n zero bytes at a. Strings, pointer cells and pending c-strings
    /// located at or after a move by n; labels and pointer targets located
    /// after a (or at a when `ge`) move by n.
    pub fn allocate(&mut self, a: usize, n: usize, ge: bool) -> MRes<()> {
        if a > self.size() {
            return Err(ErrKind::Oob);
        }
        if a % 4 != 0 || n % 4 != 0 {
            return Err(ErrKind::Unaligned);
        }
        let tail = self.data.split_off(a);
        self.data.extend(std::iter::repeat(0).take(n));
        self.data.extend(tail);
        let mv_cell = |x: usize| if x >= a { x + n } else { x };
        let mv_ref = |x: usize| if x > a || (ge && x == a) { x + n } else { x };
        self.text = self.text.iter().map(|(k, v)| (mv_cell(*k), v.clone())).collect();
        self.pointers = self.pointers.iter().map(|(k, v)| (mv_cell(*k), mv_ref(*v))).collect();
        self.labels = self.labels.iter().map(|(k, v)| (mv_ref(*k), v.clone())).collect();
        for c in self.cstrings.iter_mut() {
            c.0 = mv_cell(c.0);
        }
        Ok(())
    }

    /// remove [a, a+n): deletes exactly the bytes and annotations inside it
    /// and the pointers that point into it, shifts the rest back.
    pub fn deallocate(&mut self, a: usize, n: usize) -> MRes<()> {
        let end = match a.checked_add(n) {
            Some(e) => e,
            None => return Err(ErrKind::Oob),
        };
        if a >= self.size() || end > self.size() {
            return Err(ErrKind::Oob);
        }
        if a % 4 != 0 || n % 4 != 0 {
            return Err(ErrKind::Unaligned);
        }
        self.data.drain(a..end);
        let inside = |x: usize| x >= a && x < end;
        let back = |x: usize| if x >= end { x - n } else { x };
        self.text = self.text.iter().filter(|(k, _)| !inside(**k)).map(|(k, v)| (back(*k), v.clone())).collect();
        self.pointers = self
            .pointers
            .iter()
            .filter(|(k, v)| !inside(**k) && !inside(**v))
            .map(|(k, v)| (back(*k), back(*v)))
            .collect();
        let mut nl: BTreeMap<usize, Vec<String>> = BTreeMap::new();
        for (k, v) in self.labels.iter().filter(|(k, _)| !inside(**k)) {
            // with n == 0 nothing collides; with n > 0 the survivors map injectively
            nl.entry(back(*k)).or_default().extend(v.iter().cloned());
        }
        self.labels = nl;
        self.cstrings = self.cstrings.iter().filter(|(k, _)| !inside(*k)).map(|(k, s)| (back(*k), s.clone())).collect();
        Ok(())
    }

    /// truncate at a cell boundary: removes every byte and annotation at or
    /// beyond the cut. Returns the pointer cells that survive but point at or
    /// beyond the cut (the statement is silent about them).
    pub fn truncate(&mut self, a: usize) -> Vec<usize> {
        if a >= self.size() {
            return Vec::new();
        }
        self.data.truncate(a);
        self.text.retain(|k, _| *k < a);
        self.pointers.retain(|k, _| *k < a);
        self.labels.retain(|k, _| *k < a);
        self.cstrings.retain(|(k, _)| *k < a);
        self.pointers.iter().filter(|(_, v)| **v >= a).map(|(k, _)| *k).collect()
    }

    // ---- derived observations

    pub fn all_labels(&self) -> Vec<(usize, String)> {
        let mut out = Vec::new();
        for (k, v) in &self.labels {
            for s in v {
                out.push((*k, s.clone()));
            }
        }
        out
    }

    pub fn pointer_destinations(&self) -> BTreeSet<usize> {
        self.pointers.values().copied().collect()
    }

    /// true when no two annotated 4-byte cells overlap and no cell carries two
    /// kinds of annotation: only then is the c-string part of a serialized
    /// image unambiguous
    pub fn cells_disjoint(&self) -> bool {
        let mut cells: Vec<usize> = Vec::new();
        cells.extend(self.text.keys());
        cells.extend(self.pointers.keys());
        cells.extend(self.cstrings.iter().map(|c| c.0));
        cells.sort();
        // every annotated cell lies inside the data, and cells do not overlap
        cells.iter().all(|c| c.checked_add(4).map(|e| e <= self.size()).unwrap_or(false))
            && cells.windows(2).all(|w| w[1] >= w[0] + 4)
    }

    pub fn state_hash(&self) -> u64 {
        let mut h = crate::rng::H64::new();
        h.u64(self.big as u64);
        h.bytes(&self.data);
        for (k, v) in &self.text {
            h.u64(*k as u64);
            h.str(v);
        }
        h.u64(0xAAAA);
        for (k, v) in &self.pointers {
            h.u64(*k as u64);
            h.u64(*v as u64);
        }
        h.u64(0xBBBB);
        for (k, v) in &self.labels {
            if v.is_empty() {
                continue;
            }
            h.u64(*k as u64);
            for s in v {
                h.str(s);
            }
        }
        h.u64(0xCCCC);
        let mut cs = self.cstrings.clone();
        cs.sort();
        for (k, s) in &cs {
            h.u64(*k as u64);
            h.str(s);
        }
        h.finish()
    }
}
