//! FsModel — reference model of the layered store: pool of layer directories
//! mirrored in memory, top-down lookup by kind, write-to-top, recursive
//! listing with a matcher for a small glob family, and the localisation table
//! (copied once from the pinned code, thereafter the specification).

use serde::{Deserialize, Serialize};
use std::collections::{BTreeMap, BTreeSet};

#[derive(Clone, Debug, PartialEq)]
pub enum Node {
    File(Vec<u8>),
    Dir,
}

#[derive(Clone, Debug, PartialEq, Default)]
pub struct Layer {
    /// the layer directory itself exists
    pub present: bool,
    /// layer-relative path ("a/b/c") -> node; ancestors of every node are Dir nodes
    pub nodes: BTreeMap<String, Node>,
}

#[derive(Serialize, Deserialize, Clone, Copy, Debug, PartialEq, Eq, PartialOrd, Ord)]
pub enum G {
    FE9,
    FE10,
    FE13,
    FE14,
    FE15,
}

#[derive(Serialize, Deserialize, Clone, Copy, Debug, PartialEq, Eq, PartialOrd, Ord)]
pub enum L {
    EnglishNA,
    EnglishEU,
    Japanese,
    Spanish,
    French,
    Italian,
    German,
    Dutch,
}

pub const GAMES: [G; 5] = [G::FE9, G::FE10, G::FE13, G::FE14, G::FE15];
pub const LANGS: [L; 8] = [L::EnglishNA, L::EnglishEU, L::Japanese, L::Spanish, L::French, L::Italian, L::German, L::Dutch];

impl G {
    pub fn mila(self) -> mila::Game {
        match self {
            G::FE9 => mila::Game::FE9,
            G::FE10 => mila::Game::FE10,
            G::FE13 => mila::Game::FE13,
            G::FE14 => mila::Game::FE14,
            G::FE15 => mila::Game::FE15,
        }
    }
    /// specification table: FE9/FE10 big-endian, Shift-JIS text, LZ10; FE13-15 little-endian, UTF-16, LZ13
    pub fn big_endian(self) -> bool {
        matches!(self, G::FE9 | G::FE10)
    }
    pub fn lz10(self) -> bool {
        matches!(self, G::FE9 | G::FE10)
    }
    /// does the *name* select compression for this game
    pub fn compressed_name(self, name: &str) -> bool {
        if self.lz10() {
            name.ends_with(".cms") || name.ends_with(".cmp")
        } else {
            name.ends_with(".lz")
        }
    }
}

impl L {
    pub fn mila(self) -> mila::Language {
        match self {
            L::EnglishNA => mila::Language::EnglishNA,
            L::EnglishEU => mila::Language::EnglishEU,
            L::Japanese => mila::Language::Japanese,
            L::Spanish => mila::Language::Spanish,
            L::French => mila::Language::French,
            L::Italian => mila::Language::Italian,
            L::German => mila::Language::German,
            L::Dutch => mila::Language::Dutch,
        }
    }
}

/// how a game marks a language
#[derive(Clone, Debug, PartialEq)]
pub enum Marker {
    /// nothing inserted
    None,
    /// a language directory between the directory part and the final component
    Dir(&'static str),
    /// a prefix on the final component
    Prefix(&'static str),
    Unsupported,
}

/// THE TABLE (6 localizers x 8 languages; the NoOp localizer is the identity)
pub fn marker(game: G, lang: L) -> Marker {
    use Marker::*;
    match game {
        G::FE9 => match lang {
            L::Japanese | L::EnglishNA | L::EnglishEU => None,
            L::Spanish => Prefix("s_"),
            L::German => Prefix("d_"),
            L::Italian => Prefix("i_"),
            L::French => Prefix("f_"),
            L::Dutch => Unsupported,
        },
        G::FE10 => match lang {
            L::Japanese => None,
            L::EnglishNA | L::EnglishEU => Prefix("e_"),
            L::Spanish => Prefix("s_"),
            L::German => Prefix("d_"),
            L::Italian => Prefix("i_"),
            L::French => Prefix("f_"),
            L::Dutch => Unsupported,
        },
        G::FE13 => match lang {
            L::EnglishNA => Dir("E"),
            L::EnglishEU => Dir("U"),
            L::Japanese => None,
            L::Spanish => Dir("S"),
            L::French => Dir("F"),
            L::German => Dir("G"),
            L::Italian => Dir("I"),
            L::Dutch => Unsupported,
        },
        G::FE14 => match lang {
            L::EnglishNA => Dir("@E"),
            L::EnglishEU => Dir("@U"),
            L::Japanese => None,
            L::Spanish => Dir("@S"),
            L::French => Dir("@F"),
            L::German => Dir("@G"),
            L::Italian => Dir("@I"),
            L::Dutch => Unsupported,
        },
        G::FE15 => match lang {
            L::EnglishNA => Dir("@NOA_EN"),
            L::EnglishEU => Dir("@NOE_EN"),
            L::Japanese => Dir("@J"),
            L::Spanish => Dir("@NOE_SP"),
            L::French => Dir("@NOE_FR"),
            L::German => Dir("@NOE_GE"),
            L::Italian => Dir("@NOE_IT"),
            L::Dutch => Dir("@NOE_DU"),
        },
    }
}

pub fn comps(path: &str) -> Vec<String> {
    path.split('/').filter(|c| !c.is_empty()).map(|c| c.to_string()).collect()
}

#[derive(Clone, Debug, PartialEq)]
pub enum LocErr {
    Unsupported,
    Degenerate,
}

/// Specification of path localisation, on components: the directory part and
/// the final component stay intact, the marker goes between them; a
/// single-component path is a directory and gets the marker appended.
pub fn localize_spec(game: G, lang: L, path: &str) -> Result<Vec<String>, LocErr> {
    let c = comps(path);
    if c.is_empty() || c.iter().any(|x| x == ".." || x == ".") || path.starts_with('/') {
        return Err(LocErr::Degenerate);
    }
    let m = marker(game, lang);
    if m == Marker::Unsupported {
        return Err(LocErr::Unsupported);
    }
    let (dir, file): (Vec<String>, Option<String>) = if c.len() == 1 {
        (c.clone(), None)
    } else {
        (c[..c.len() - 1].to_vec(), Some(c[c.len() - 1].clone()))
    };
    let mut out = dir;
    match (m, file) {
        (Marker::None, Some(f)) => out.push(f),
        (Marker::None, None) => {}
        (Marker::Dir(d), f) => {
            out.push(d.to_string());
            if let Some(f) = f {
                out.push(f);
            }
        }
        (Marker::Prefix(p), Some(f)) => out.push(format!("{}{}", p, f)),
        (Marker::Prefix(p), None) => out.push(p.to_string()),
        (Marker::Unsupported, _) => unreachable!(),
    }
    Ok(out)
}

#[derive(Clone, Copy, Debug, PartialEq)]
pub enum Kind {
    Any,
    File,
    Dir,
}

#[derive(Clone, Debug, PartialEq, Default)]
pub struct FsModel {
    pub layers: Vec<Layer>,
}

pub fn key(c: &[String]) -> String {
    c.join("/")
}

impl Layer {
    pub fn node(&self, c: &[String]) -> Option<Node> {
        if !self.present {
            return None;
        }
        if c.is_empty() {
            return Some(Node::Dir);
        }
        self.nodes.get(&key(c)).cloned()
    }

    /// a file stands where a directory component would be needed
    pub fn blocked(&self, c: &[String]) -> bool {
        for i in 1..=c.len() {
            if let Some(Node::File(_)) = self.nodes.get(&key(&c[..i])) {
                return true;
            }
        }
        false
    }

    pub fn mkdirs(&mut self, c: &[String]) {
        self.present = true;
        for i in 1..=c.len() {
            self.nodes.entry(key(&c[..i])).or_insert(Node::Dir);
        }
    }

    pub fn remove_subtree(&mut self, c: &[String]) {
        let k = key(c);
        let pre = format!("{}/", k);
        self.nodes.retain(|p, _| p != &k && !p.starts_with(&pre));
    }
}

impl FsModel {
    pub fn new(n: usize) -> FsModel {
        FsModel { layers: (0..n).map(|_| Layer { present: true, nodes: BTreeMap::new() }).collect() }
    }

    /// top-down search: the highest-priority layer of the stack whose node at the path has the kind
    pub fn find(&self, stack: &[usize], c: &[String], kind: Kind) -> Option<usize> {
        for l in stack.iter().rev() {
            match (self.layers[*l].node(c), kind) {
                (Some(_), Kind::Any) => return Some(*l),
                (Some(Node::File(_)), Kind::File) => return Some(*l),
                (Some(Node::Dir), Kind::Dir) => return Some(*l),
                _ => {}
            }
        }
        None
    }

    /// write to the top layer: Err when a file blocks a directory component or
    /// the target is a directory; otherwise missing parents appear and the
    /// file holds `bytes`
    pub fn write(&mut self, top: usize, c: &[String], bytes: Vec<u8>) -> Result<(), ()> {
        let l = &mut self.layers[top];
        if c.is_empty() {
            return Err(());
        }
        if l.present && (l.blocked(&c[..c.len() - 1]) || matches!(l.node(c), Some(Node::Dir))) {
            return Err(());
        }
        l.mkdirs(&c[..c.len() - 1]);
        l.nodes.insert(key(c), Node::File(bytes));
        Ok(())
    }

    pub fn create_dir(&mut self, top: usize, c: &[String]) -> Result<(), ()> {
        let l = &mut self.layers[top];
        if l.present && l.blocked(c) {
            return Err(());
        }
        l.mkdirs(c);
        Ok(())
    }

    /// union over the stack of every entry below `dir` matching `pattern`
    /// (None = everything, recursively), as layer-relative paths, sorted, unique
    pub fn list(&self, stack: &[usize], dir: &[String], pattern: Option<&str>) -> Vec<String> {
        let mut out: BTreeSet<String> = BTreeSet::new();
        let pat = pattern.unwrap_or("**/*");
        let pc: Vec<&str> = pat.split('/').collect();
        for l in stack {
            let layer = &self.layers[*l];
            match layer.node(dir) {
                Some(Node::Dir) => {}
                _ => continue,
            }
            let pre = if dir.is_empty() { String::new() } else { format!("{}/", key(dir)) };
            for p in layer.nodes.keys() {
                if let Some(rel) = p.strip_prefix(&pre) {
                    if rel.is_empty() {
                        continue;
                    }
                    let rc: Vec<&str> = rel.split('/').collect();
                    if glob_match(&pc, &rc) {
                        out.insert(p.clone());
                    }
                }
            }
        }
        out.into_iter().collect()
    }

    pub fn subdirectories(&self, stack: &[usize], dir: &[String]) -> Vec<String> {
        let mut out: BTreeSet<String> = BTreeSet::new();
        for l in stack {
            let layer = &self.layers[*l];
            match layer.node(dir) {
                Some(Node::Dir) => {}
                _ => continue,
            }
            let pre = if dir.is_empty() { String::new() } else { format!("{}/", key(dir)) };
            for (p, n) in &layer.nodes {
                if let Some(rel) = p.strip_prefix(&pre) {
                    if !rel.is_empty() && !rel.contains('/') && *n == Node::Dir {
                        out.insert(p.clone());
                    }
                }
            }
        }
        out.into_iter().collect()
    }
}

/// matcher for the probed pattern family: components separated by '/', `**`
/// spans zero or more directories, `*` and `?` stay inside one component and
/// also match a leading dot
pub fn glob_match(pat: &[&str], path: &[&str]) -> bool {
    if pat.is_empty() {
        return path.is_empty();
    }
    if pat[0] == "**" {
        // zero or more leading components
        for k in 0..=path.len() {
            if glob_match(&pat[1..], &path[k..]) {
                return true;
            }
        }
        return false;
    }
    if path.is_empty() {
        return false;
    }
    comp_match(pat[0].as_bytes(), path[0].as_bytes()) && glob_match(&pat[1..], &path[1..])
}

fn comp_match(p: &[u8], s: &[u8]) -> bool {
    // on characters, not bytes: `?` must consume one whole character
    let pc: Vec<char> = std::str::from_utf8(p).unwrap_or("").chars().collect();
    let sc: Vec<char> = std::str::from_utf8(s).unwrap_or("").chars().collect();
    fn go(p: &[char], s: &[char]) -> bool {
        match p.first() {
            None => s.is_empty(),
            Some('*') => (0..=s.len()).any(|k| go(&p[1..], &s[k..])),
            Some('?') => !s.is_empty() && go(&p[1..], &s[1..]),
            Some(c) => !s.is_empty() && s[0] == *c && go(&p[1..], &s[1..]),
        }
    }
    go(&pc, &sc)
}
