//! Run context, violations, statistics, the guarded entry into mila, journal.

use crate::rng::H64;
use serde::de::DeserializeOwned;
use serde::{Deserialize, Serialize};
use serde_json::Value;
use std::cell::{Cell, RefCell};
use std::collections::{BTreeMap, HashSet};
use std::panic::{catch_unwind, AssertUnwindSafe};
use std::path::PathBuf;

#[derive(Clone, Debug, Serialize, Deserialize, PartialEq)]
pub struct Violation {
    pub property: String,
    /// oracle id (stable name of the clause that fired)
    pub oracle: String,
    /// coarse, line-number-free class of the failure: used for de-duplication,
    /// minimisation ("same violation class") and known-findings matching
    pub sig: String,
    pub step: usize,
    pub detail: String,
}

pub enum Stop {
    Violation(Violation),
    /// the harness itself is wrong (mirror/disk disagreement after a simulator
    /// action, impossible model state ...): exit 2, never a violation
    Harness(String),
}

pub type Step<T> = Result<T, Stop>;

pub fn harness<T>(msg: impl Into<String>) -> Step<T> {
    Err(Stop::Harness(msg.into()))
}

#[derive(Clone, Copy, Debug, PartialEq, Eq)]
pub enum Tier {
    Quick,
    Thorough,
}

impl Tier {
    pub fn name(&self) -> &'static str {
        match self {
            Tier::Quick => "quick",
            Tier::Thorough => "thorough",
        }
    }
}

pub const STATE_CAP: usize = 2_000_000;
pub const FP_CAP: usize = 4_000_000;

#[derive(Default)]
pub struct Stats {
    pub runs: u64,
    pub ops: u64,
    pub nontrivial_runs: u64,
    pub faults: BTreeMap<String, u64>,
    pub probes: BTreeMap<String, u64>,
    pub outcomes: BTreeMap<String, u64>,
    pub fingerprints: HashSet<u64>,
    pub states: HashSet<u64>,
    pub samples: Vec<Value>,
    pub max_alloc: u64,
    pub hash_keys: u64,
}

impl Stats {
    pub fn to_json(&self) -> Value {
        serde_json::json!({
            "runs": self.runs,
            "ops": self.ops,
            "nontrivial_runs": self.nontrivial_runs,
            "faults": self.faults,
            "probes": self.probes,
            "outcomes": self.outcomes,
            "samples": self.samples,
            "max_alloc": self.max_alloc,
            "hash_keys": self.hash_keys,
        })
    }
}

pub enum Mode {
    Gen,
    Replay { ops: Vec<Value>, pos: usize },
}

pub struct RunCtx<'a> {
    pub prop: String,
    /// property whose statement governs the operation being executed (panic attribution)
    pub owner: String,
    pub tier: Tier,
    pub profile: String,
    pub run_seed: u64,
    pub mode: Mode,
    pub trace_ops: Vec<Value>,
    pub hash: H64,
    pub fp: H64,
    pub nontrivial: bool,
    pub stats: &'a mut Stats,
    pub journal: Option<&'a mut Journal>,
    pub scratch: PathBuf,
    pub step: usize,
    pub max_ops: usize,
    pub verbose: bool,
}

impl<'a> RunCtx<'a> {
    /// Next operation: generated (Gen) or taken from the explicit list (Replay).
    /// The operation is recorded in the trace and journaled *before* it runs.
    pub fn next_op<Op: Serialize + DeserializeOwned>(
        &mut self,
        gen: impl FnOnce(&mut Self) -> Option<Op>,
    ) -> Step<Option<Op>> {
        let op = match &mut self.mode {
            Mode::Gen => {
                if self.trace_ops.len() >= self.max_ops {
                    return Ok(None);
                }
                match gen(self) {
                    Some(op) => op,
                    None => return Ok(None),
                }
            }
            Mode::Replay { ops, pos } => {
                if *pos >= ops.len() {
                    return Ok(None);
                }
                let v = ops[*pos].clone();
                *pos += 1;
                match serde_json::from_value::<Op>(v) {
                    Ok(op) => op,
                    Err(e) => return harness(format!("bad op in replay file: {}", e)),
                }
            }
        };
        let v = serde_json::to_value(&op).map_err(|e| Stop::Harness(e.to_string()))?;
        self.step = self.trace_ops.len();
        if let Some(j) = self.journal.as_deref_mut() {
            j.op(&v);
        }
        if self.verbose {
            eprintln!("  step {} op {}", self.step, v);
        }
        self.hash.str(&v.to_string());
        self.trace_ops.push(v);
        self.stats.ops += 1;
        Ok(Some(op))
    }

    pub fn is_replay(&self) -> bool {
        matches!(self.mode, Mode::Replay { .. })
    }

    /// record the observable outcome of an operation: goes into the trace hash
    /// (determinism check) and, as a coarse class, into the run fingerprint
    pub fn outcome(&mut self, kind: &str, class: &str, full: &str) {
        self.hash.str(full);
        self.fp.str(kind);
        self.fp.str(class);
        if self.verbose {
            eprintln!("    -> {} {} {}", kind, class, full);
        }
        let k = format!("{}:{}", kind, class);
        *self.stats.outcomes.entry(k).or_insert(0) += 1;
    }

    pub fn fault(&mut self, kind: &str) {
        self.fp.str("fault");
        self.fp.str(kind);
        self.nontrivial = true;
        *self.stats.faults.entry(kind.to_string()).or_insert(0) += 1;
    }

    pub fn probe(&mut self, name: &str) {
        *self.stats.probes.entry(name.to_string()).or_insert(0) += 1;
    }

    pub fn state(&mut self, h: u64) {
        if self.stats.states.len() < STATE_CAP {
            self.stats.states.insert(h);
        }
    }

    pub fn violation<T>(&self, oracle: &str, sig: impl Into<String>, detail: impl Into<String>) -> Step<T> {
        Err(Stop::Violation(Violation {
            property: self.prop.clone(),
            oracle: oracle.to_string(),
            sig: sig.into(),
            step: self.step,
            detail: detail.into(),
        }))
    }

    pub fn violation_for<T>(
        &self,
        property: &str,
        oracle: &str,
        sig: impl Into<String>,
        detail: impl Into<String>,
    ) -> Step<T> {
        Err(Stop::Violation(Violation {
            property: property.to_string(),
            oracle: oracle.to_string(),
            sig: sig.into(),
            step: self.step,
            detail: detail.into(),
        }))
    }

    /// Call into mila; a panic becomes a violation of `oracle` (class: location
    /// file + digit-free message).
    pub fn mila<T>(&self, api: &str, f: impl FnOnce() -> T) -> Step<T> {
        match guarded(f) {
            Ok(v) => Ok(v),
            Err(p) => self.violation_for(
                &self.owner,
                "no_panic",
                format!("panic|{}|{}|{}", api, p.file, strip_digits(&p.message)),
                format!("{} panicked at {}:{}: {}", api, p.file, p.line, p.message),
            ),
        }
    }
}

pub fn strip_digits(s: &str) -> String {
    let mut out = String::new();
    let mut last_hash = false;
    for c in s.chars() {
        if c.is_ascii_digit() {
            if !last_hash {
                out.push('#');
                last_hash = true;
            }
        } else {
            out.push(c);
            last_hash = false;
        }
    }
    if out.len() > 120 {
        let mut cut = 120;
        while !out.is_char_boundary(cut) {
            cut -= 1;
        }
        out.truncate(cut);
    }
    out
}

// ---------------------------------------------------------------------------
// guarded calls into mila

#[derive(Clone, Debug)]
pub struct PanicInfo {
    pub file: String,
    pub line: u32,
    pub message: String,
}

thread_local! {
    static IN_MILA: Cell<bool> = Cell::new(false);
    static LAST_PANIC: RefCell<Option<PanicInfo>> = RefCell::new(None);
}

pub fn install_panic_hook() {
    let default = std::panic::take_hook();
    std::panic::set_hook(Box::new(move |info| {
        let in_mila = IN_MILA.with(|f| f.get());
        if in_mila {
            let (file, line) = match info.location() {
                Some(l) => (l.file().to_string(), l.line()),
                None => ("?".to_string(), 0),
            };
            let message = if let Some(s) = info.payload().downcast_ref::<&str>() {
                s.to_string()
            } else if let Some(s) = info.payload().downcast_ref::<String>() {
                s.clone()
            } else {
                "<non-string panic payload>".to_string()
            };
            LAST_PANIC.with(|p| *p.borrow_mut() = Some(PanicInfo { file, line, message }));
        } else {
            default(info);
        }
    }));
}

pub fn guarded<T>(f: impl FnOnce() -> T) -> Result<T, PanicInfo> {
    IN_MILA.with(|f| f.set(true));
    let r = catch_unwind(AssertUnwindSafe(f));
    IN_MILA.with(|f| f.set(false));
    match r {
        Ok(v) => Ok(v),
        Err(_) => Err(LAST_PANIC.with(|p| p.borrow_mut().take()).unwrap_or(PanicInfo {
            file: "?".into(),
            line: 0,
            message: "panic without hook info".into(),
        })),
    }
}

// ---------------------------------------------------------------------------
// write-ahead journal in a shared mapping (survives abort; no syscall per op;
// not subject to RLIMIT_FSIZE because the file is sized up front)

pub const JOURNAL_CAP: usize = 8 << 20;
const J_HEART: usize = 0;
const J_REFUSED: usize = 8;
const J_RUN: usize = 16;
const J_LEN: usize = 24;
const J_DATA: usize = 32;

pub struct Journal {
    ptr: *mut u8,
    cap: usize,
}

impl Journal {
    pub fn create(path: &std::path::Path) -> std::io::Result<Journal> {
        use std::os::unix::io::AsRawFd;
        let f = std::fs::OpenOptions::new()
            .read(true)
            .write(true)
            .create(true)
            .truncate(true)
            .open(path)?;
        f.set_len(JOURNAL_CAP as u64)?;
        let ptr = unsafe {
            libc::mmap(
                std::ptr::null_mut(),
                JOURNAL_CAP,
                libc::PROT_READ | libc::PROT_WRITE,
                libc::MAP_SHARED,
                f.as_raw_fd(),
                0,
            )
        };
        if ptr == libc::MAP_FAILED {
            return Err(std::io::Error::last_os_error());
        }
        let j = Journal { ptr: ptr as *mut u8, cap: JOURNAL_CAP };
        crate::alloc::set_refused_slot(unsafe { j.ptr.add(J_REFUSED) } as *mut u64);
        Ok(j)
    }

    fn put_u64(&mut self, off: usize, v: u64) {
        unsafe { std::ptr::write_volatile(self.ptr.add(off) as *mut u64, v) }
    }
    fn get_u64(&self, off: usize) -> u64 {
        unsafe { std::ptr::read_volatile(self.ptr.add(off) as *const u64) }
    }

    pub fn begin_run(&mut self, index: u64, header: &Value) {
        self.put_u64(J_RUN, index);
        self.put_u64(J_LEN, 0);
        self.put_u64(J_REFUSED, 0);
        self.append(header.to_string().as_bytes());
    }

    fn append(&mut self, b: &[u8]) {
        let len = self.get_u64(J_LEN) as usize;
        if J_DATA + len + b.len() + 1 > self.cap {
            return;
        }
        unsafe {
            std::ptr::copy_nonoverlapping(b.as_ptr(), self.ptr.add(J_DATA + len), b.len());
            *self.ptr.add(J_DATA + len + b.len()) = b'\n';
        }
        self.put_u64(J_LEN, (len + b.len() + 1) as u64);
        let h = self.get_u64(J_HEART);
        self.put_u64(J_HEART, h.wrapping_add(1));
    }

    pub fn op(&mut self, v: &Value) {
        self.append(v.to_string().as_bytes());
    }

    pub fn beat(&mut self) {
        let h = self.get_u64(J_HEART);
        self.put_u64(J_HEART, h.wrapping_add(1));
    }
}

/// Supervisor-side reading of a (possibly dead) worker's journal file.
pub struct JournalSnapshot {
    pub heartbeat: u64,
    pub refused_alloc: u64,
    pub run_index: u64,
    pub lines: Vec<String>,
}

pub fn read_journal(path: &std::path::Path) -> Option<JournalSnapshot> {
    use std::io::{Read, Seek, SeekFrom};
    let mut f = std::fs::File::open(path).ok()?;
    let mut head = [0u8; J_DATA];
    f.read_exact(&mut head).ok()?;
    let g = |o: usize| u64::from_le_bytes(head[o..o + 8].try_into().unwrap());
    let len = g(J_LEN) as usize;
    let mut data = vec![0u8; len.min(JOURNAL_CAP - J_DATA)];
    f.seek(SeekFrom::Start(J_DATA as u64)).ok()?;
    f.read_exact(&mut data).ok()?;
    let text = String::from_utf8_lossy(&data).to_string();
    Some(JournalSnapshot {
        heartbeat: g(J_HEART),
        refused_alloc: g(J_REFUSED),
        run_index: g(J_RUN),
        lines: text.lines().map(|s| s.to_string()).collect(),
    })
}

pub fn read_heartbeat(path: &std::path::Path) -> Option<u64> {
    use std::io::Read;
    let mut f = std::fs::File::open(path).ok()?;
    let mut head = [0u8; 8];
    f.read_exact(&mut head).ok()?;
    Some(u64::from_le_bytes(head))
}

// ---------------------------------------------------------------------------
// trace files

#[derive(Clone, Debug, Serialize, Deserialize)]
pub struct Trace {
    pub scenario: String,
    pub property: String,
    pub profile: String,
    pub verif_seed: u64,
    pub run_index: u64,
    pub run_seed: u64,
    pub tier: String,
    pub cfg: Value,
    pub ops: Vec<Value>,
    #[serde(default)]
    pub expect: Option<Violation>,
    #[serde(default)]
    pub trace_hash: Option<String>,
    #[serde(default)]
    pub note: Option<String>,
}

pub mod hexser {
    use serde::{Deserialize, Deserializer, Serializer};
    pub fn serialize<S: Serializer>(b: &Vec<u8>, s: S) -> Result<S::Ok, S::Error> {
        let mut out = String::with_capacity(b.len() * 2);
        for x in b {
            out.push_str(&format!("{:02x}", x));
        }
        s.serialize_str(&out)
    }
    pub fn deserialize<'de, D: Deserializer<'de>>(d: D) -> Result<Vec<u8>, D::Error> {
        let s = String::deserialize(d)?;
        let mut out = Vec::with_capacity(s.len() / 2);
        let b = s.as_bytes();
        let mut i = 0;
        while i + 1 < b.len() {
            let h = (b[i] as char).to_digit(16).ok_or_else(|| serde::de::Error::custom("hex"))?;
            let l = (b[i + 1] as char).to_digit(16).ok_or_else(|| serde::de::Error::custom("hex"))?;
            out.push((h * 16 + l) as u8);
            i += 2;
        }
        Ok(out)
    }
}

pub fn hex(b: &[u8]) -> String {
    let mut out = String::with_capacity(b.len() * 2);
    for x in b {
        out.push_str(&format!("{:02x}", x));
    }
    out
}
