//! Supervisor: seed ranges, isolated workers, watchdog, journals, minimiser,
//! replay verification, known findings, result file.

use crate::core::*;
use crate::scen;
use crate::Args;
use serde_json::{json, Value};
use std::collections::{BTreeMap, HashMap, HashSet};
use std::io::{BufRead, BufReader};
use std::path::{Path, PathBuf};
use std::process::{Command, Stdio};
use std::sync::{Arc, Mutex};
use std::time::{Duration, Instant};

thread_local! {
    static FIRST_INDEX: std::cell::Cell<Option<u64>> = std::cell::Cell::new(None);
}

pub fn default_scratch_root() -> PathBuf {
    let base = if Path::new("/dev/shm").is_dir() {
        PathBuf::from("/dev/shm")
    } else {
        std::env::temp_dir()
    };
    base.join(format!("milasim.{}", std::process::id()))
}

struct ScratchGuard(PathBuf);
impl Drop for ScratchGuard {
    fn drop(&mut self) {
        let _ = std::fs::remove_dir_all(&self.0);
    }
}

#[derive(Default)]
struct Collected {
    stats: Vec<Value>,
    hashes: HashMap<u64, String>,
    violations: Vec<Trace>,
    harness: Vec<String>,
    crashes: u64,
    hangs: u64,
    foreign_crashes: u64,
    fingerprints: HashSet<u64>,
    states: HashSet<u64>,
}

#[derive(Clone)]
struct WorkerPlan {
    exe: PathBuf,
    prop: String,
    tier: String,
    profile: String,
    seed: u64,
    start: u64,
    stride: u64,
    count: u64,
    sample_mod: u64,
    only_sample: bool,
    deadline_s: u64,
    hang_s: u64,
    root: PathBuf,
    tag: String,
    /// skip the runs below this index (to re-examine a range of a larger batch)
    first_index: Option<u64>,
}

fn signal_of(status: &std::process::ExitStatus) -> Option<i32> {
    use std::os::unix::process::ExitStatusExt;
    status.signal()
}

/// Run one worker slot to completion, respawning after crashes / hangs.
fn manage_worker(plan: WorkerPlan, shared: Arc<Mutex<Collected>>) {
    let scratch = plan.root.join(format!("{}.d", plan.tag));
    let journal = plan.root.join(format!("{}.journal", plan.tag));
    let fp_out = plan.root.join(format!("{}.fp", plan.tag));
    let mut resume_after: Option<u64> = plan.first_index.and_then(|f| f.checked_sub(1));
    let mut respawns = 0;
    loop {
        let mut cmd = Command::new(&plan.exe);
        cmd.arg("worker")
            .args(["--prop", &plan.prop])
            .args(["--tier", &plan.tier])
            .args(["--profile", &plan.profile])
            .args(["--seed", &plan.seed.to_string()])
            .args(["--start", &plan.start.to_string()])
            .args(["--stride", &plan.stride.to_string()])
            .args(["--count", &plan.count.to_string()])
            .args(["--sample-mod", &plan.sample_mod.to_string()])
            .args(["--deadline-s", &plan.deadline_s.to_string()])
            .args(["--scratch", scratch.to_str().unwrap()])
            .args(["--journal", journal.to_str().unwrap()])
            .args(["--fp-out", fp_out.to_str().unwrap()]);
        if plan.only_sample {
            cmd.arg("--only-sample");
        }
        if let Some(r) = resume_after {
            cmd.args(["--resume-after", &r.to_string()]);
        }
        // a dying worker is reported through its journal, not through a backtrace on stderr
        cmd.env("RUST_BACKTRACE", "0");
        cmd.stdout(Stdio::piped()).stderr(Stdio::inherit()).stdin(Stdio::null());
        let mut child = match cmd.spawn() {
            Ok(c) => c,
            Err(e) => {
                shared.lock().unwrap().harness.push(format!("cannot spawn worker: {}", e));
                return;
            }
        };
        let pid = child.id();
        let hung = Arc::new(Mutex::new(false));
        let done = Arc::new(Mutex::new(false));
        // watchdog: wall clock is used only to convert non-termination into a report
        let wd = {
            let journal = journal.clone();
            let hung = hung.clone();
            let done = done.clone();
            let hang_s = plan.hang_s;
            std::thread::spawn(move || {
                let mut last = read_heartbeat(&journal).unwrap_or(0);
                let mut last_change = Instant::now();
                loop {
                    std::thread::sleep(Duration::from_millis(500));
                    if *done.lock().unwrap() {
                        return;
                    }
                    let h = read_heartbeat(&journal).unwrap_or(0);
                    if h != last {
                        last = h;
                        last_change = Instant::now();
                    } else if last_change.elapsed().as_secs() >= hang_s {
                        *hung.lock().unwrap() = true;
                        unsafe {
                            libc::kill(pid as i32, libc::SIGKILL);
                        }
                        return;
                    }
                }
            })
        };
        let stdout = child.stdout.take().unwrap();
        let reader = BufReader::new(stdout);
        let mut got_stat = false;
        let mut last_partial: Option<Value> = None;
        for line in reader.lines() {
            let line = match line {
                Ok(l) => l,
                Err(_) => break,
            };
            if let Some(rest) = line.strip_prefix("H ") {
                let mut it = rest.split(' ');
                if let (Some(i), Some(h)) = (it.next(), it.next()) {
                    if let Ok(i) = i.parse::<u64>() {
                        shared.lock().unwrap().hashes.insert(i, h.to_string());
                    }
                }
            } else if let Some(rest) = line.strip_prefix("VIOL ") {
                match serde_json::from_str::<Trace>(rest) {
                    Ok(t) => shared.lock().unwrap().violations.push(t),
                    Err(e) => shared.lock().unwrap().harness.push(format!("bad VIOL line: {}", e)),
                }
            } else if let Some(rest) = line.strip_prefix("STAT ") {
                if let Ok(v) = serde_json::from_str::<Value>(rest) {
                    shared.lock().unwrap().stats.push(v);
                    got_stat = true;
                }
            } else if let Some(rest) = line.strip_prefix("PSTAT ") {
                if let Ok(v) = serde_json::from_str::<Value>(rest) {
                    last_partial = Some(v);
                }
            } else if let Some(rest) = line.strip_prefix("HARNESS ") {
                shared.lock().unwrap().harness.push(rest.to_string());
            }
        }
        let status = child.wait();
        *done.lock().unwrap() = true;
        let _ = wd.join();
        let was_hung = *hung.lock().unwrap();
        let status = match status {
            Ok(s) => s,
            Err(e) => {
                shared.lock().unwrap().harness.push(format!("wait failed: {}", e));
                return;
            }
        };
        // merge fingerprints
        if let Ok(buf) = std::fs::read(&fp_out) {
            let mut c = shared.lock().unwrap();
            let rd = |o: usize| u64::from_le_bytes(buf[o..o + 8].try_into().unwrap());
            if buf.len() >= 8 {
                let n = rd(0) as usize;
                let mut off = 8;
                for _ in 0..n {
                    if off + 8 > buf.len() {
                        break;
                    }
                    if c.fingerprints.len() < FP_CAP {
                        c.fingerprints.insert(rd(off));
                    }
                    off += 8;
                }
                if off + 8 <= buf.len() {
                    let m = rd(off) as usize;
                    off += 8;
                    for _ in 0..m {
                        if off + 8 > buf.len() {
                            break;
                        }
                        if c.states.len() < STATE_CAP {
                            c.states.insert(rd(off));
                        }
                        off += 8;
                    }
                }
            }
            let _ = std::fs::remove_file(&fp_out);
        }
        if status.success() && got_stat {
            break;
        }
        if status.code() == Some(2) {
            // harness error already reported via HARNESS lines
            if !got_stat {
                shared.lock().unwrap().harness.push(format!("worker {} exited 2", plan.tag));
            }
            break;
        }
        // abnormal termination: keep what the dead worker had reported so far, then attribute the
        // death with the journal
        if let Some(p) = last_partial.take() {
            shared.lock().unwrap().stats.push(p);
        }
        let snap = read_journal(&journal);
        let sig = signal_of(&status);
        match snap {
            Some(s) if !s.lines.is_empty() => {
                let header: Value = serde_json::from_str(&s.lines[0]).unwrap_or(Value::Null);
                let ops: Vec<Value> = s.lines[1..]
                    .iter()
                    .filter_map(|l| serde_json::from_str::<Value>(l).ok())
                    .collect();
                let run_index = s.run_index;
                let (oracle, sigs, detail) = if was_hung {
                    (
                        "terminates",
                        "hang".to_string(),
                        format!("no progress for {} s inside one operation; worker killed", plan.hang_s),
                    )
                } else {
                    (
                        "process_outcome",
                        format!("abort|signal={}|alloc_refused={}", sig.unwrap_or(0), s.refused_alloc > 0),
                        format!(
                            "worker died (signal {:?}, exit {:?}); refused allocation request = {} bytes",
                            sig,
                            status.code(),
                            s.refused_alloc
                        ),
                    )
                };
                let def = scen::for_prop(&plan.prop).unwrap();
                let owner = (def.crash_owner)(&plan.prop, ops.last().unwrap_or(&Value::Null));
                if owner != plan.prop {
                    // governed by another property's statement (like a caught panic in the same place)
                    let mut c = shared.lock().unwrap();
                    c.foreign_crashes += 1;
                    drop(c);
                    resume_after = Some(run_index);
                    respawns += 1;
                    if respawns > 200 {
                        shared.lock().unwrap().harness.push(format!("worker {} respawned too often", plan.tag));
                        break;
                    }
                    continue;
                }
                let t = Trace {
                    scenario: def.name.to_string(),
                    property: plan.prop.clone(),
                    profile: plan.profile.clone(),
                    verif_seed: plan.seed,
                    run_index,
                    run_seed: header["run_seed"].as_u64().unwrap_or(0),
                    tier: plan.tier.clone(),
                    cfg: header["cfg"].clone(),
                    ops: ops.clone(),
                    expect: Some(Violation {
                        property: plan.prop.clone(),
                        oracle: oracle.to_string(),
                        sig: sigs,
                        step: ops.len().saturating_sub(1),
                        detail,
                    }),
                    trace_hash: None,
                    note: Some("reconstructed from the write-ahead journal of a dead worker".into()),
                };
                let mut c = shared.lock().unwrap();
                if was_hung {
                    c.hangs += 1;
                } else {
                    c.crashes += 1;
                }
                c.violations.push(t);
                resume_after = Some(run_index);
            }
            _ => {
                shared.lock().unwrap().harness.push(format!(
                    "worker {} died ({:?}) and left no journal",
                    plan.tag, status
                ));
                break;
            }
        }
        respawns += 1;
        if respawns > 200 {
            shared.lock().unwrap().harness.push(format!("worker {} respawned too often", plan.tag));
            break;
        }
    }
    let _ = std::fs::remove_file(&journal);
    let _ = std::fs::remove_dir_all(&scratch);
}

#[allow(clippy::too_many_arguments)]
fn run_fleet(
    exe: &Path,
    prop: &str,
    tier: &str,
    profile: &str,
    seed: u64,
    count: u64,
    jobs: u64,
    sample_mod: u64,
    with_sample_worker: bool,
    deadline_s: u64,
    hang_s: u64,
    root: &Path,
) -> (Collected, Collected) {
    let main = Arc::new(Mutex::new(Collected::default()));
    let sample = Arc::new(Mutex::new(Collected::default()));
    let mut handles = Vec::new();
    for k in 0..jobs {
        let plan = WorkerPlan {
            exe: exe.to_path_buf(),
            prop: prop.to_string(),
            tier: tier.to_string(),
            profile: profile.to_string(),
            seed,
            start: k,
            stride: jobs,
            count,
            sample_mod,
            only_sample: false,
            deadline_s,
            hang_s,
            root: root.to_path_buf(),
            tag: format!("w{}", k),
            first_index: FIRST_INDEX.with(|f| f.get()),
        };
        let sh = main.clone();
        handles.push(std::thread::spawn(move || manage_worker(plan, sh)));
    }
    if with_sample_worker && sample_mod > 0 {
        let plan = WorkerPlan {
            exe: exe.to_path_buf(),
            prop: prop.to_string(),
            tier: tier.to_string(),
            profile: profile.to_string(),
            seed,
            start: 0,
            stride: 1,
            count,
            sample_mod,
            only_sample: true,
            deadline_s: 0,
            hang_s,
            root: root.to_path_buf(),
            tag: "resample".to_string(),
            first_index: FIRST_INDEX.with(|f| f.get()),
        };
        let sh = sample.clone();
        handles.push(std::thread::spawn(move || manage_worker(plan, sh)));
    }
    for h in handles {
        let _ = h.join();
    }
    let m = std::mem::take(&mut *main.lock().unwrap());
    let s = std::mem::take(&mut *sample.lock().unwrap());
    (m, s)
}

// ---------------------------------------------------------------------------
// candidate execution in a fresh process (minimiser, replay verification)

#[derive(Debug, Clone)]
pub enum Cand {
    Clean,
    Viol(Violation),
    Harness(String),
}

pub fn run_candidate(exe: &Path, trace: &Trace, root: &Path, hang_s: u64) -> Cand {
    let _ = std::fs::create_dir_all(root);
    let file = root.join("cand.json");
    let scratch = root.join("cand.d");
    let journal = root.join("cand.journal");
    if std::fs::write(&file, serde_json::to_string(trace).unwrap()).is_err() {
        return Cand::Harness("cannot write candidate".into());
    }
    let child = Command::new(exe)
        .arg("replay")
        .arg("--inner")
        .arg("--json")
        .args(["--file", file.to_str().unwrap()])
        .args(["--scratch", scratch.to_str().unwrap()])
        .args(["--journal", journal.to_str().unwrap()])
        .stdout(Stdio::piped())
        .stderr(Stdio::null())
        .stdin(Stdio::null())
        .spawn();
    let mut child = match child {
        Ok(c) => c,
        Err(e) => return Cand::Harness(format!("spawn: {}", e)),
    };
    let t0 = Instant::now();
    let mut hung = false;
    let status = loop {
        match child.try_wait() {
            Ok(Some(s)) => break s,
            Ok(None) => {
                if t0.elapsed().as_secs() >= hang_s {
                    let _ = child.kill();
                    hung = true;
                }
                std::thread::sleep(Duration::from_micros(300));
            }
            Err(e) => return Cand::Harness(format!("wait: {}", e)),
        }
    };
    let mut out = String::new();
    if let Some(mut so) = child.stdout.take() {
        use std::io::Read;
        let _ = so.read_to_string(&mut out);
    }
    let _ = std::fs::remove_dir_all(&scratch);
    let res = if hung {
        Cand::Viol(Violation {
            property: trace.property.clone(),
            oracle: "terminates".into(),
            sig: "hang".into(),
            step: trace.ops.len().saturating_sub(1),
            detail: format!("replay did not finish within {} s", hang_s),
        })
    } else if let Some(sig) = signal_of(&status) {
        let refused = read_journal(&journal).map(|s| s.refused_alloc).unwrap_or(0);
        Cand::Viol(Violation {
            property: trace.property.clone(),
            oracle: "process_outcome".into(),
            sig: format!("abort|signal={}|alloc_refused={}", sig, refused > 0),
            step: trace.ops.len().saturating_sub(1),
            detail: format!("process died with signal {}; refused allocation request = {} bytes", sig, refused),
        })
    } else {
        let mut r = Cand::Harness(format!("no RESULT line (exit {:?})", status.code()));
        for line in out.lines() {
            if let Some(rest) = line.strip_prefix("RESULT ") {
                if let Ok(v) = serde_json::from_str::<Value>(rest) {
                    if let Some(h) = v.get("harness") {
                        r = Cand::Harness(h.to_string());
                    } else if v["violation"].is_null() {
                        r = Cand::Clean;
                    } else if let Ok(viol) = serde_json::from_value::<Violation>(v["violation"].clone()) {
                        r = Cand::Viol(viol);
                    }
                }
            }
        }
        r
    };
    let _ = std::fs::remove_file(&journal);
    let _ = std::fs::remove_file(&file);
    res
}

fn same_class(a: &Violation, b: &Violation) -> bool {
    a.property == b.property && a.oracle == b.oracle && a.sig == b.sig
}

/// Delta-debugging minimisation of the explicit operation list, then per-op
/// and configuration shrinking; a candidate is kept only if the *same*
/// violation class fires in a fresh process.
pub fn minimise(exe: &Path, trace: &Trace, root: &Path, budget_s: u64, hang_s: u64) -> (Trace, u64) {
    let def = match scen::by_name(&trace.scenario) {
        Some(d) => d,
        None => return (trace.clone(), 0),
    };
    let want = match &trace.expect {
        Some(v) => v.clone(),
        None => return (trace.clone(), 0),
    };
    let t0 = Instant::now();
    let mut tried = 0u64;
    let mut best = trace.clone();
    let over = |t0: &Instant| t0.elapsed().as_secs() >= budget_s;
    let mut check = |cand: &Trace, tried: &mut u64| -> Option<Violation> {
        *tried += 1;
        match run_candidate(exe, cand, root, hang_s) {
            Cand::Viol(v) if same_class(&v, &want) => Some(v),
            _ => None,
        }
    };
    // 0. cut everything after the violating step
    if want.step + 1 < best.ops.len() {
        let mut c = best.clone();
        c.ops.truncate(want.step + 1);
        if let Some(v) = check(&c, &mut tried) {
            c.expect = Some(v);
            best = c;
        }
    }
    // 1. ddmin on ops
    let mut n = 2usize;
    while best.ops.len() >= 2 && !over(&t0) {
        let len = best.ops.len();
        let chunk = (len + n - 1) / n;
        let mut reduced = false;
        let mut start = 0;
        while start < len && !over(&t0) {
            let end = (start + chunk).min(len);
            let mut c = best.clone();
            c.ops.drain(start..end);
            if let Some(v) = check(&c, &mut tried) {
                c.expect = Some(v);
                best = c;
                reduced = true;
                break;
            }
            start = end;
        }
        if reduced {
            n = (n - 1).max(2);
        } else {
            if chunk <= 1 {
                break;
            }
            n = (n * 2).min(len);
        }
    }
    // 2. shrink individual ops and the configuration until nothing changes
    let mut progress = true;
    let mut rounds = 0;
    while progress && !over(&t0) && rounds < 6 {
        progress = false;
        rounds += 1;
        let mut i = 0;
        while i < best.ops.len() && !over(&t0) {
            // try dropping
            if best.ops.len() > 1 {
                let mut c = best.clone();
                c.ops.remove(i);
                if let Some(v) = check(&c, &mut tried) {
                    c.expect = Some(v);
                    best = c;
                    progress = true;
                    continue;
                }
            }
            let alts = (def.shrink_op)(&best.ops[i]);
            let mut replaced = false;
            for alt in alts {
                if over(&t0) {
                    break;
                }
                if alt == best.ops[i] {
                    continue;
                }
                let mut c = best.clone();
                c.ops[i] = alt;
                if let Some(v) = check(&c, &mut tried) {
                    c.expect = Some(v);
                    best = c;
                    progress = true;
                    replaced = true;
                    break;
                }
            }
            if !replaced {
                i += 1;
            }
        }
        loop {
            if over(&t0) {
                break;
            }
            let mut changed = false;
            for alt in (def.shrink_cfg)(&best.cfg) {
                if alt == best.cfg {
                    continue;
                }
                let mut c = best.clone();
                c.cfg = alt;
                if let Some(v) = check(&c, &mut tried) {
                    c.expect = Some(v);
                    best = c;
                    progress = true;
                    changed = true;
                    break;
                }
            }
            if !changed {
                break;
            }
        }
    }
    (best, tried)
}

// ---------------------------------------------------------------------------
// known findings

#[derive(Clone, Debug)]
pub struct Known {
    pub property: String,
    pub oracle: String,
    pub sig_prefix: String,
    pub what: String,
}

pub fn load_known(path: &Path) -> Vec<Known> {
    let mut out = Vec::new();
    if let Ok(text) = std::fs::read_to_string(path) {
        if let Ok(v) = serde_json::from_str::<Value>(&text) {
            if let Some(arr) = v["findings"].as_array() {
                for f in arr {
                    out.push(Known {
                        property: f["property"].as_str().unwrap_or("").to_string(),
                        oracle: f["oracle"].as_str().unwrap_or("").to_string(),
                        sig_prefix: f["sig_prefix"].as_str().unwrap_or("\u{0}").to_string(),
                        what: f["what"].as_str().unwrap_or("").to_string(),
                    });
                }
            }
        }
    }
    out
}

fn known_match<'a>(known: &'a [Known], v: &Violation) -> Option<&'a Known> {
    known
        .iter()
        .find(|k| k.property == v.property && k.oracle == v.oracle && v.sig.starts_with(&k.sig_prefix))
}

// ---------------------------------------------------------------------------

fn merge_counts(into: &mut BTreeMap<String, u64>, v: &Value) {
    if let Some(m) = v.as_object() {
        for (k, x) in m {
            *into.entry(k.clone()).or_insert(0) += x.as_u64().unwrap_or(0);
        }
    }
}

pub fn cmd_supervise(a: &Args) -> i32 {
    let prop = a.req("prop");
    let def = match scen::for_prop(&prop) {
        Some(d) => d,
        None => {
            eprintln!("no scenario for property {}", prop);
            return 2;
        }
    };
    let tier_s = a.get("tier").unwrap_or("quick").to_string();
    let tier = crate::tier_of(&tier_s);
    let profile = a.req("profile");
    let seed = a.num("seed", 1);
    let jobs = a.num("jobs", 16).max(1);
    let count = match a.get("runs") {
        Some(r) => r.parse().unwrap_or(1),
        None => (def.budget)(&prop, tier),
    };
    let hang_s = a.num("hang-s", 60);
    if let Some(f) = a.get("from").and_then(|s| s.parse::<u64>().ok()) {
        FIRST_INDEX.with(|c| c.set(Some(f)));
    }
    let deadline_s = a.num("deadline-s", if tier == Tier::Quick { 240 } else { 3600 });
    let min_budget = a.num("minimise-s", 120);
    let out_path = a.get("out").map(PathBuf::from);
    let replays = PathBuf::from(a.get("replays").unwrap_or("/verif/replays"));
    let known = load_known(Path::new(a.get("known").unwrap_or("/verif/known_findings.json")));
    let exe = std::env::current_exe().unwrap();
    let root = default_scratch_root();
    let _guard = ScratchGuard(root.clone());
    if let Err(e) = std::fs::create_dir_all(&root) {
        eprintln!("cannot create scratch root {}: {}", root.display(), e);
        return 2;
    }
    let _ = std::fs::create_dir_all(&replays);
    let t0 = Instant::now();
    // determinism re-execution sample: ~1 %, at least ~20 runs
    let sample_mod = if count >= 2020 { 101 } else { (count / 20).max(1) };
    eprintln!(
        "[milasim] {} {} scenario={} profile={} seed={} runs={} jobs={}",
        prop, tier_s, def.name, profile, seed, count, jobs
    );
    let (main, sample) = run_fleet(
        &exe, &prop, &tier_s, &profile, seed, count, jobs, sample_mod, true, deadline_s, hang_s, &root,
    );
    let explore_s = t0.elapsed().as_secs_f64();

    // ---- merge statistics
    let mut runs = 0u64;
    let mut ops = 0u64;
    let mut nontrivial_runs = 0u64;
    let mut faults = BTreeMap::new();
    let mut probes = BTreeMap::new();
    let mut outcomes = BTreeMap::new();
    let mut samples: Vec<Value> = Vec::new();
    let mut truncated = false;
    let mut max_alloc = 0u64;
    let mut hash_keys = 0u64;
    let mut violations_total = 0u64;
    for s in &main.stats {
        runs += s["runs"].as_u64().unwrap_or(0);
        ops += s["ops"].as_u64().unwrap_or(0);
        nontrivial_runs += s["nontrivial_runs"].as_u64().unwrap_or(0);
        merge_counts(&mut faults, &s["faults"]);
        merge_counts(&mut probes, &s["probes"]);
        merge_counts(&mut outcomes, &s["outcomes"]);
        if samples.len() < 3 {
            if let Some(arr) = s["samples"].as_array() {
                for x in arr.iter().take(1) {
                    samples.push(x.clone());
                }
            }
        }
        truncated |= s["truncated"].as_bool().unwrap_or(false);
        max_alloc = max_alloc.max(s["max_alloc"].as_u64().unwrap_or(0));
        hash_keys += s["hash_keys"].as_u64().unwrap_or(0);
        violations_total += s["violations_total"].as_u64().unwrap_or(0);
    }
    violations_total += main.crashes + main.hangs;

    // ---- determinism sample
    let mut det_compared = 0u64;
    let mut det_mismatch: Vec<u64> = Vec::new();
    for (i, h) in &sample.hashes {
        if let Some(h2) = main.hashes.get(i) {
            det_compared += 1;
            if h != h2 {
                det_mismatch.push(*i);
            }
        }
    }
    det_mismatch.sort();
    let mut harness: Vec<String> = main.harness.clone();
    harness.extend(sample.harness.iter().cloned());
    if !det_mismatch.is_empty() {
        harness.push(format!(
            "nondeterminism: {} of {} re-executed runs produced a different trace hash (indices {:?})",
            det_mismatch.len(),
            det_compared,
            &det_mismatch[..det_mismatch.len().min(8)]
        ));
    }

    // ---- violations: classify, known findings, minimise, verify replay
    let mut classes: BTreeMap<(String, String, String), Vec<Trace>> = BTreeMap::new();
    for t in main.violations.iter().chain(sample.violations.iter()) {
        if let Some(v) = &t.expect {
            classes
                .entry((v.property.clone(), v.oracle.clone(), v.sig.clone()))
                .or_default()
                .push(t.clone());
        }
    }
    let mut reported: Vec<Value> = Vec::new();
    let mut known_seen: BTreeMap<String, (String, u64)> = BTreeMap::new();
    let mut new_classes = 0;
    let min_root = root.join("min");
    for ((property, oracle, sig), mut traces) in classes {
        let v0 = traces[0].expect.clone().unwrap();
        if let Some(k) = known_match(&known, &v0) {
            let e = known_seen
                .entry(format!("{}|{}|{}", k.property, k.oracle, k.sig_prefix))
                .or_insert((format!("KNOWN-FINDING: property={} {}", k.property, k.what), 0));
            e.1 += traces.len() as u64;
            continue;
        }
        new_classes += 1;
        traces.sort_by_key(|t| (t.ops.len(), t.run_index));
        let first = traces[0].clone();
        let (mini, tried) = if new_classes <= 6 {
            minimise(&exe, &first, &min_root, min_budget, hang_s)
        } else {
            (first.clone(), 0)
        };
        // final verification in a fresh process
        let verdict = run_candidate(&exe, &mini, &min_root, hang_s);
        let reproduced = matches!(&verdict, Cand::Viol(v) if same_class(v, &v0));
        let n = reported.len();
        let path = replays.join(format!(
            "{}-{}-{}-{}-{}.json",
            property, profile, seed, mini.run_index, n
        ));
        let mut to_write = mini.clone();
        to_write.note = Some(format!(
            "minimised from {} to {} operations with {} candidate executions; original run index {}",
            first.ops.len(),
            mini.ops.len(),
            tried,
            first.run_index
        ));
        let _ = std::fs::write(&path, serde_json::to_string_pretty(&to_write).unwrap());
        if reproduced {
            let v = mini.expect.clone().unwrap();
            println!(
                "violation: property={} oracle={} sig={} step={} detail={}",
                property, oracle, sig, v.step, v.detail
            );
            println!("VIOLATION property={} replay={}", property, path.display());
            reported.push(json!({
                "property": property, "oracle": oracle, "sig": sig, "detail": v.detail,
                "replay": path.display().to_string(), "occurrences": traces.len(),
                "ops_original": first.ops.len(), "ops_minimised": mini.ops.len(),
                "candidates_tried": tried
            }));
        } else {
            harness.push(format!(
                "violation class {}|{}|{} did not reproduce from its replay file {} in a fresh process ({:?})",
                property, oracle, sig, path.display(), verdict
            ));
        }
    }
    for (_, (line, _n)) in &known_seen {
        println!("{}", line);
    }
    for h in &harness {
        eprintln!("[milasim] HARNESS: {}", h);
    }
    let wall = t0.elapsed().as_secs_f64();
    let result = json!({
        "property": prop,
        "scenario": def.name,
        "tier": tier_s,
        "profile": profile,
        "seed": seed,
        "runs_planned": count,
        "runs": runs,
        "ops": ops,
        "nontrivial_runs": nontrivial_runs,
        "distinct_fingerprints": main.fingerprints.len(),
        "distinct_states": main.states.len(),
        "faults_fired": faults,
        "probes": probes,
        "outcomes": outcomes,
        "samples": samples,
        "truncated_by_deadline": truncated,
        "max_single_alloc": max_alloc,
        "hash_keys_drawn": hash_keys,
        "violations_total_runs": violations_total,
        "violations": reported,
        "known_findings_seen": known_seen.iter().map(|(k, (l, n))| json!({"key": k, "line": l, "runs": n})).collect::<Vec<_>>(),
        "worker_crashes": main.crashes,
        "foreign_worker_crashes": main.foreign_crashes,
        "worker_hangs": main.hangs,
        "determinism": {"reexecuted": det_compared, "mismatches": det_mismatch.len()},
        "harness_errors": harness,
        "explore_s": explore_s,
        "wall_s": wall,
        "runs_per_hour": if explore_s > 0.0 { (runs as f64 / explore_s * 3600.0) as u64 } else { 0 },
        "jobs": jobs,
    });
    if let Some(p) = out_path {
        if let Err(e) = std::fs::write(&p, serde_json::to_string_pretty(&result).unwrap()) {
            eprintln!("cannot write {}: {}", p.display(), e);
            return 2;
        }
    }
    eprintln!(
        "[milasim] {} {} {}: runs={} ops={} fingerprints={} states={} violations={} known={} harness={} wall={:.1}s",
        prop,
        tier_s,
        profile,
        runs,
        ops,
        main.fingerprints.len(),
        main.states.len(),
        reported.len(),
        known_seen.len(),
        harness.len(),
        wall
    );
    // a violation that was minimised and reproduced from its replay file in a fresh process
    // stands on its own; harness trouble alone (nondeterminism, unreproducible reports) is exit 2
    if !reported.is_empty() {
        1
    } else if !harness.is_empty() {
        2
    } else {
        0
    }
}

/// selftest: the same seeds with 1 worker and with N workers, in different
/// scratch roots; per-run trace hashes must be identical.
pub fn cmd_determinism(a: &Args) -> i32 {
    let prop = a.req("prop");
    let profile = a.req("profile");
    let seed = a.num("seed", 1);
    let count = a.num("runs", 2000);
    let jobs = a.num("jobs", 16);
    let tier_s = a.get("tier").unwrap_or("quick").to_string();
    let exe = std::env::current_exe().unwrap();
    let root = default_scratch_root();
    let _guard = ScratchGuard(root.clone());
    let r1 = root.join("one");
    let r2 = root.join("many");
    let _ = std::fs::create_dir_all(&r1);
    let _ = std::fs::create_dir_all(&r2);
    let (a1, _) = run_fleet(&exe, &prop, &tier_s, &profile, seed, count, 1, 1, false, 0, 120, &r1);
    let (a2, _) = run_fleet(&exe, &prop, &tier_s, &profile, seed, count, jobs, 1, false, 0, 120, &r2);
    let mut mism = 0;
    let mut cmp = 0;
    for (i, h) in &a1.hashes {
        match a2.hashes.get(i) {
            Some(h2) => {
                cmp += 1;
                if h != h2 {
                    mism += 1;
                    if mism <= 5 {
                        println!("MISMATCH run {} : {} vs {}", i, h, h2);
                    }
                }
            }
            None => {
                mism += 1;
                println!("MISSING run {}", i);
            }
        }
    }
    println!(
        "determinism {} {}: compared={} mismatches={} harness={:?}",
        prop,
        profile,
        cmp,
        mism,
        a1.harness.iter().chain(a2.harness.iter()).take(3).collect::<Vec<_>>()
    );
    if mism == 0 && cmp as u64 == count && a1.harness.is_empty() && a2.harness.is_empty() {
        0
    } else {
        2
    }
}

/// `replay --file F`: run the explicit trace in a fresh, isolated process (so
/// that aborts and hangs are observable) and report like a check does.
pub fn cmd_replay_outer(a: &Args) -> i32 {
    let file = a.req("file");
    let text = match std::fs::read_to_string(&file) {
        Ok(t) => t,
        Err(e) => {
            eprintln!("cannot read {}: {}", file, e);
            return 2;
        }
    };
    let trace: Trace = match serde_json::from_str(&text) {
        Ok(t) => t,
        Err(e) => {
            eprintln!("cannot parse {}: {}", file, e);
            return 2;
        }
    };
    let exe = std::env::current_exe().unwrap();
    let root = default_scratch_root();
    let _guard = ScratchGuard(root.clone());
    if a.flag("verbose") {
        // in-process, verbose (no isolation)
        let st = Command::new(&exe)
            .args(["replay", "--inner", "--verbose", "--file", &file])
            .args(["--scratch", root.join("v.d").to_str().unwrap()])
            .status();
        return st.ok().and_then(|s| s.code()).unwrap_or(2);
    }
    match run_candidate(&exe, &trace, &root, a.num("hang-s", 60)) {
        Cand::Clean => {
            println!("no violation on replay of {}", file);
            0
        }
        Cand::Viol(v) => {
            println!("violation reproduced: oracle={} sig={} step={} : {}", v.oracle, v.sig, v.step, v.detail);
            if let Some(e) = &trace.expect {
                if !same_class(e, &v) {
                    println!("note: the file expected oracle={} sig={}", e.oracle, e.sig);
                }
            }
            println!("VIOLATION property={} replay={}", v.property, file);
            1
        }
        Cand::Harness(m) => {
            eprintln!("harness error: {}", m);
            2
        }
    }
}
