//! Allocator seam: records the largest single request per observation window;
//! optionally refuses requests above a cap (C05 only). A refused request makes
//! the process abort (allocation failure does not unwind); the size is first
//! stored in the journal mapping so the supervisor can attribute the abort.

use std::alloc::{GlobalAlloc, Layout, System};
use std::sync::atomic::{AtomicPtr, AtomicUsize, Ordering};

pub struct SimAlloc;

static MAX_REQ: AtomicUsize = AtomicUsize::new(0);
static CAP: AtomicUsize = AtomicUsize::new(usize::MAX);
static REFUSED_SLOT: AtomicPtr<u64> = AtomicPtr::new(std::ptr::null_mut());

#[inline]
fn note(size: usize) -> bool {
    if size > MAX_REQ.load(Ordering::Relaxed) {
        MAX_REQ.store(size, Ordering::Relaxed);
    }
    if size > CAP.load(Ordering::Relaxed) {
        let p = REFUSED_SLOT.load(Ordering::Relaxed);
        if !p.is_null() {
            unsafe { std::ptr::write_volatile(p, size as u64) };
        }
        return false;
    }
    true
}

unsafe impl GlobalAlloc for SimAlloc {
    unsafe fn alloc(&self, layout: Layout) -> *mut u8 {
        if !note(layout.size()) {
            return std::ptr::null_mut();
        }
        System.alloc(layout)
    }
    unsafe fn dealloc(&self, ptr: *mut u8, layout: Layout) {
        System.dealloc(ptr, layout)
    }
    unsafe fn alloc_zeroed(&self, layout: Layout) -> *mut u8 {
        if !note(layout.size()) {
            return std::ptr::null_mut();
        }
        System.alloc_zeroed(layout)
    }
    unsafe fn realloc(&self, ptr: *mut u8, layout: Layout, new_size: usize) -> *mut u8 {
        if !note(new_size) {
            return std::ptr::null_mut();
        }
        System.realloc(ptr, layout, new_size)
    }
}

pub fn window_start() {
    MAX_REQ.store(0, Ordering::Relaxed);
}

pub fn window_max() -> usize {
    MAX_REQ.load(Ordering::Relaxed)
}

pub fn set_cap(c: usize) {
    CAP.store(c, Ordering::Relaxed);
}

pub fn set_refused_slot(p: *mut u64) {
    REFUSED_SLOT.store(p, Ordering::Relaxed);
}
