//! Own PRNG (splitmix64 seeding + xoshiro256**), so that stream contents never
//! change with a crate version. One integer decides everything.

#[inline]
pub fn splitmix(state: &mut u64) -> u64 {
    *state = state.wrapping_add(0x9E37_79B9_7F4A_7C15);
    let mut z = *state;
    z = (z ^ (z >> 30)).wrapping_mul(0xBF58_476D_1CE4_E5B9);
    z = (z ^ (z >> 27)).wrapping_mul(0x94D0_49BB_1331_11EB);
    z ^ (z >> 31)
}

pub fn mix2(a: u64, b: u64) -> u64 {
    let mut s = a ^ b.rotate_left(32) ^ 0xA076_1D64_78BD_642F;
    let x = splitmix(&mut s);
    let mut t = x ^ b;
    splitmix(&mut t)
}

pub fn mix_str(a: u64, s: &str) -> u64 {
    let mut h = a ^ 0xcbf2_9ce4_8422_2325;
    for b in s.bytes() {
        h = (h ^ b as u64).wrapping_mul(0x0000_0100_0000_01B3);
    }
    mix2(h, a)
}

#[derive(Clone, Debug)]
pub struct Rng {
    s: [u64; 4],
}

impl Rng {
    pub fn new(seed: u64) -> Rng {
        let mut st = seed;
        let s = [
            splitmix(&mut st),
            splitmix(&mut st),
            splitmix(&mut st),
            splitmix(&mut st),
        ];
        Rng { s }
    }

    /// Independent sub-stream: removing draws from one stream never shifts another.
    pub fn sub(seed: u64, name: &str) -> Rng {
        Rng::new(mix_str(seed, name))
    }

    #[inline]
    pub fn next(&mut self) -> u64 {
        let result = self.s[1].wrapping_mul(5).rotate_left(7).wrapping_mul(9);
        let t = self.s[1] << 17;
        self.s[2] ^= self.s[0];
        self.s[3] ^= self.s[1];
        self.s[1] ^= self.s[2];
        self.s[0] ^= self.s[3];
        self.s[2] ^= t;
        self.s[3] = self.s[3].rotate_left(45);
        result
    }

    /// uniform in 0..n (n > 0)
    #[inline]
    pub fn below(&mut self, n: usize) -> usize {
        debug_assert!(n > 0);
        ((self.next() as u128 * n as u128) >> 64) as usize
    }

    /// uniform in lo..=hi
    #[inline]
    pub fn range(&mut self, lo: usize, hi: usize) -> usize {
        lo + self.below(hi - lo + 1)
    }

    #[inline]
    pub fn chance(&mut self, num: usize, den: usize) -> bool {
        self.below(den) < num
    }

    pub fn pick<'a, T>(&mut self, xs: &'a [T]) -> &'a T {
        &xs[self.below(xs.len())]
    }

    pub fn bytes(&mut self, n: usize) -> Vec<u8> {
        let mut v = Vec::with_capacity(n);
        while v.len() < n {
            let x = self.next().to_le_bytes();
            let k = (n - v.len()).min(8);
            v.extend_from_slice(&x[..k]);
        }
        v
    }

    pub fn shuffle<T>(&mut self, xs: &mut [T]) {
        for i in (1..xs.len()).rev() {
            let j = self.below(i + 1);
            xs.swap(i, j);
        }
    }

    /// weighted choice: returns index
    pub fn weighted(&mut self, w: &[u32]) -> usize {
        let total: u64 = w.iter().map(|x| *x as u64).sum();
        let mut r = self.below(total as usize) as u64;
        for (i, x) in w.iter().enumerate() {
            if r < *x as u64 {
                return i;
            }
            r -= *x as u64;
        }
        w.len() - 1
    }
}

/// 64-bit running hash used for trace hashes and fingerprints (FNV-1a + final mix).
#[derive(Clone, Copy, Debug)]
pub struct H64(pub u64);

impl H64 {
    pub fn new() -> H64 {
        H64(0xcbf2_9ce4_8422_2325)
    }
    #[inline]
    pub fn bytes(&mut self, b: &[u8]) {
        for x in b {
            self.0 = (self.0 ^ *x as u64).wrapping_mul(0x0000_0100_0000_01B3);
        }
        self.0 = self.0.rotate_left(23) ^ (b.len() as u64);
    }
    #[inline]
    pub fn str(&mut self, s: &str) {
        self.bytes(s.as_bytes())
    }
    #[inline]
    pub fn u64(&mut self, v: u64) {
        self.bytes(&v.to_le_bytes())
    }
    pub fn finish(&self) -> u64 {
        let mut s = self.0;
        splitmix(&mut s)
    }
}
