//! milasim — deterministic simulation with fault injection for thane98/mila.
//!
//!   milasim supervise --prop C03 --tier quick --profile checked --out result.json
//!   milasim worker    ... (spawned by the supervisor)
//!   milasim replay    --file replays/C03-....json [--verbose]
//!
//! exit codes: 0 property held on everything explored, 1 violation, 2 harness error.

#![allow(dead_code)]
mod alloc;
mod core;
mod model;
mod rng;
mod scen;
mod sup;

use crate::core::*;
use serde_json::Value;
use std::collections::HashMap;
use std::path::PathBuf;

#[global_allocator]
static GLOBAL: alloc::SimAlloc = alloc::SimAlloc;

pub struct Args {
    pub cmd: String,
    pub kv: HashMap<String, String>,
    pub flags: Vec<String>,
}

impl Args {
    pub fn get(&self, k: &str) -> Option<&str> {
        self.kv.get(k).map(|s| s.as_str())
    }
    pub fn req(&self, k: &str) -> String {
        match self.kv.get(k) {
            Some(v) => v.clone(),
            None => {
                eprintln!("milasim: missing --{}", k);
                std::process::exit(2);
            }
        }
    }
    pub fn num(&self, k: &str, default: u64) -> u64 {
        self.kv.get(k).map(|v| v.parse().unwrap_or(default)).unwrap_or(default)
    }
    pub fn flag(&self, k: &str) -> bool {
        self.flags.iter().any(|f| f == k)
    }
}

fn parse_args() -> Args {
    let mut it = std::env::args().skip(1);
    let cmd = it.next().unwrap_or_default();
    let mut kv = HashMap::new();
    let mut flags = Vec::new();
    let rest: Vec<String> = it.collect();
    let mut i = 0;
    while i < rest.len() {
        let a = &rest[i];
        if let Some(k) = a.strip_prefix("--") {
            if i + 1 < rest.len() && !rest[i + 1].starts_with("--") {
                kv.insert(k.to_string(), rest[i + 1].clone());
                i += 2;
            } else {
                flags.push(k.to_string());
                i += 1;
            }
        } else {
            i += 1;
        }
    }
    Args { cmd, kv, flags }
}

pub fn tier_of(s: &str) -> Tier {
    if s == "thorough" {
        Tier::Thorough
    } else {
        Tier::Quick
    }
}

pub fn run_seed_for(verif_seed: u64, scenario: &str, prop: &str, profile: &str, index: u64) -> u64 {
    let a = rng::mix_str(verif_seed, scenario);
    let b = rng::mix_str(a, prop);
    let c = rng::mix_str(b, profile);
    rng::mix2(c, index)
}

pub struct RunOutput {
    pub result: Result<(), Stop>,
    pub trace: Trace,
    pub nontrivial: bool,
    pub fingerprint: u64,
}

/// Execute one run: generated from (seed, index), or an explicit (cfg, ops) list.
#[allow(clippy::too_many_arguments)]
pub fn exec_run(
    def: &scen::ScenDef,
    prop: &str,
    tier: Tier,
    profile: &str,
    verif_seed: u64,
    index: u64,
    explicit: Option<(Value, Vec<Value>, u64)>,
    stats: &mut Stats,
    journal: Option<&mut Journal>,
    scratch: &std::path::Path,
    verbose: bool,
) -> RunOutput {
    let (cfg, mode, run_seed) = match explicit {
        Some((cfg, ops, run_seed)) => (cfg, Mode::Replay { ops, pos: 0 }, run_seed),
        None => {
            let run_seed = run_seed_for(verif_seed, def.name, prop, profile, index);
            ((def.gen_cfg)(prop, tier, run_seed), Mode::Gen, run_seed)
        }
    };
    #[cfg(mila_verif)]
    mila::verif_seam::set_hash_stream(rng::mix_str(run_seed, "hash"));
    let mut journal = journal;
    if let Some(j) = journal.as_deref_mut() {
        j.begin_run(
            index,
            &serde_json::json!({"index": index, "run_seed": run_seed, "cfg": cfg}),
        );
    }
    let mut ctx = RunCtx {
        prop: prop.to_string(),
        owner: prop.to_string(),
        tier,
        profile: profile.to_string(),
        run_seed,
        mode,
        trace_ops: Vec::new(),
        hash: rng::H64::new(),
        fp: rng::H64::new(),
        nontrivial: false,
        stats,
        journal,
        scratch: scratch.to_path_buf(),
        step: 0,
        max_ops: 400,
        verbose,
    };
    ctx.hash.str(&cfg.to_string());
    let result = match std::panic::catch_unwind(std::panic::AssertUnwindSafe(|| (def.run)(&cfg, &mut ctx))) {
        Ok(r) => r,
        Err(_) => Err(Stop::Harness("harness panicked (see stderr)".to_string())),
    };
    let nontrivial = ctx.nontrivial;
    let fingerprint = ctx.fp.finish();
    let trace_hash = ctx.hash.finish();
    let ops = std::mem::take(&mut ctx.trace_ops);
    drop(ctx);
    stats.runs += 1;
    #[cfg(mila_verif)]
    {
        stats.hash_keys += mila::verif_seam::hash_keys_drawn();
    }
    if nontrivial {
        stats.nontrivial_runs += 1;
        if stats.fingerprints.len() < FP_CAP {
            stats.fingerprints.insert(fingerprint);
        }
    }
    let expect = match &result {
        Err(Stop::Violation(v)) => Some(v.clone()),
        _ => None,
    };
    let trace = Trace {
        scenario: def.name.to_string(),
        property: prop.to_string(),
        profile: profile.to_string(),
        verif_seed,
        run_index: index,
        run_seed,
        tier: tier.name().to_string(),
        cfg,
        ops,
        expect,
        trace_hash: Some(format!("{:016x}", trace_hash)),
        note: None,
    };
    RunOutput { result, trace, nontrivial, fingerprint }
}

fn cmd_worker(a: &Args) -> i32 {
    let prop = a.req("prop");
    let def = match scen::for_prop(&prop) {
        Some(d) => d,
        None => {
            eprintln!("no scenario for property {}", prop);
            return 2;
        }
    };
    let tier = tier_of(a.get("tier").unwrap_or("quick"));
    let profile = a.req("profile");
    let seed = a.num("seed", 1);
    let start = a.num("start", 0);
    let stride = a.num("stride", 1).max(1);
    let count = a.num("count", 0);
    let sample_mod = a.num("sample-mod", 0);
    let only_sample = a.flag("only-sample");
    let deadline_s = a.num("deadline-s", 0);
    let resume_after: Option<u64> = a.get("resume-after").and_then(|s| s.parse().ok());
    let scratch = PathBuf::from(a.req("scratch"));
    let _ = std::fs::create_dir_all(&scratch);
    let mut journal = match a.get("journal") {
        Some(p) => match Journal::create(std::path::Path::new(p)) {
            Ok(j) => Some(j),
            Err(e) => {
                println!("HARNESS cannot create journal: {}", e);
                return 2;
            }
        },
        None => None,
    };
    install_panic_hook();
    (def.worker_init)(&prop);
    let t0 = std::time::Instant::now();
    let mut stats = Stats::default();
    let mut index = start;
    let mut truncated = false;
    let mut harness_errors = 0;
    let mut violations = 0u64;
    let mut last_flush = std::time::Instant::now();
    use std::io::Write;
    let out = std::io::stdout();
    while index < count {
        let i = index;
        index += stride;
        if let Some(r) = resume_after {
            if i <= r {
                continue;
            }
        }
        let sampled = sample_mod > 0 && i % sample_mod == 0;
        if only_sample && !sampled {
            continue;
        }
        if deadline_s > 0 && t0.elapsed().as_secs() >= deadline_s {
            truncated = true;
            break;
        }
        let ro = exec_run(def, &prop, tier, &profile, seed, i, None, &mut stats, journal.as_mut(), &scratch, false);
        let mut o = out.lock();
        // progress report for the supervisor: used only if this worker dies before its final STAT
        // (reporting only; nothing is decided by the clock)
        if last_flush.elapsed().as_secs() >= 3 {
            last_flush = std::time::Instant::now();
            let mut pj = stats.to_json();
            pj["samples"] = Value::Array(Vec::new());
            pj["violations_total"] = Value::from(violations);
            pj["partial"] = Value::Bool(true);
            let _ = writeln!(o, "PSTAT {}", pj);
        }
        if sampled {
            let _ = writeln!(o, "H {} {}", i, ro.trace.trace_hash.as_deref().unwrap_or(""));
        }
        match ro.result {
            Ok(()) => {
                if stats.samples.len() < 2 && ro.nontrivial && !only_sample {
                    let mut ops = ro.trace.ops.clone();
                    let total = ops.len();
                    ops.truncate(12);
                    // long payloads are abbreviated in the evidence samples (replay files keep them whole)
                    fn abbreviate(v: &mut Value) {
                        match v {
                            Value::String(s) if s.len() > 96 => {
                                let n = s.len();
                                let mut cut = 64;
                                while !s.is_char_boundary(cut) {
                                    cut -= 1;
                                }
                                s.truncate(cut);
                                s.push_str(&format!("...({} chars)", n));
                            }
                            Value::Array(a) => a.iter_mut().for_each(abbreviate),
                            Value::Object(o) => o.values_mut().for_each(abbreviate),
                            _ => {}
                        }
                    }
                    ops.iter_mut().for_each(abbreviate);
                    stats.samples.push(serde_json::json!({
                        "run_index": i, "run_seed": ro.trace.run_seed, "cfg": ro.trace.cfg,
                        "first_ops": ops, "ops_total": total
                    }));
                }
            }
            Err(Stop::Violation(_)) => {
                violations += 1;
                // keep the pipe from flooding: after many violations only count them
                if violations <= 40 {
                    let _ = writeln!(o, "VIOL {}", serde_json::to_string(&ro.trace).unwrap());
                }
            }
            Err(Stop::Harness(m)) => {
                harness_errors += 1;
                let _ = writeln!(o, "HARNESS run {} : {} : {}", i, m, serde_json::to_string(&ro.trace).unwrap());
                if harness_errors > 5 {
                    break;
                }
            }
        }
    }
    // fingerprints / states go to a side file (can be large)
    if let Some(p) = a.get("fp-out") {
        let mut buf: Vec<u8> = Vec::with_capacity((stats.fingerprints.len() + stats.states.len() + 2) * 8);
        buf.extend_from_slice(&(stats.fingerprints.len() as u64).to_le_bytes());
        for f in &stats.fingerprints {
            buf.extend_from_slice(&f.to_le_bytes());
        }
        buf.extend_from_slice(&(stats.states.len() as u64).to_le_bytes());
        for f in &stats.states {
            buf.extend_from_slice(&f.to_le_bytes());
        }
        let _ = std::fs::write(p, buf);
    }
    let mut sj = stats.to_json();
    sj["truncated"] = Value::Bool(truncated);
    sj["violations_total"] = Value::from(violations);
    sj["wall_s"] = Value::from(t0.elapsed().as_secs_f64());
    println!("STAT {}", sj);
    let _ = std::fs::remove_dir_all(&scratch);
    if harness_errors > 0 {
        2
    } else {
        0
    }
}

/// Replay an explicit trace file in this (fresh) process.
fn cmd_replay(a: &Args) -> i32 {
    if !a.flag("inner") {
        return sup::cmd_replay_outer(a);
    }
    let file = a.req("file");
    let text = match std::fs::read_to_string(&file) {
        Ok(t) => t,
        Err(e) => {
            eprintln!("cannot read {}: {}", file, e);
            return 2;
        }
    };
    let trace: Trace = match serde_json::from_str(&text) {
        Ok(t) => t,
        Err(e) => {
            eprintln!("cannot parse {}: {}", file, e);
            return 2;
        }
    };
    let def = match scen::by_name(&trace.scenario) {
        Some(d) => d,
        None => {
            eprintln!("unknown scenario {}", trace.scenario);
            return 2;
        }
    };
    if let Some(p) = a.get("profile") {
        if p != trace.profile {
            eprintln!("note: trace was recorded under profile {}, this binary is {}", trace.profile, p);
        }
    }
    let scratch = match a.get("scratch") {
        Some(s) => PathBuf::from(s),
        None => sup::default_scratch_root().join("replay"),
    };
    let _ = std::fs::create_dir_all(&scratch);
    let journal_path = a.get("journal").map(PathBuf::from);
    let mut journal = journal_path.as_ref().and_then(|p| Journal::create(p).ok());
    install_panic_hook();
    (def.worker_init)(&trace.property);
    let mut stats = Stats::default();
    let ro = exec_run(
        def,
        &trace.property,
        tier_of(&trace.tier),
        &trace.profile,
        trace.verif_seed,
        trace.run_index,
        Some((trace.cfg.clone(), trace.ops.clone(), trace.run_seed)),
        &mut stats,
        journal.as_mut(),
        &scratch,
        a.flag("verbose"),
    );
    if a.get("scratch").is_none() {
        let _ = std::fs::remove_dir_all(sup::default_scratch_root());
    }
    match ro.result {
        Ok(()) => {
            println!("RESULT {}", serde_json::json!({"violation": null, "trace_hash": ro.trace.trace_hash}));
            if !a.flag("json") {
                println!("no violation on replay of {}", file);
            }
            0
        }
        Err(Stop::Violation(v)) => {
            println!(
                "RESULT {}",
                serde_json::json!({"violation": v, "trace_hash": ro.trace.trace_hash, "ops_executed": ro.trace.ops.len()})
            );
            if !a.flag("json") {
                println!("violation reproduced: oracle={} sig={} step={} : {}", v.oracle, v.sig, v.step, v.detail);
                println!("VIOLATION property={} replay={}", v.property, file);
            }
            1
        }
        Err(Stop::Harness(m)) => {
            println!("RESULT {}", serde_json::json!({"harness": m}));
            eprintln!("harness error: {}", m);
            2
        }
    }
}

fn main() {
    let a = parse_args();
    let code = match a.cmd.as_str() {
        "worker" => cmd_worker(&a),
        "replay" => cmd_replay(&a),
        "supervise" => sup::cmd_supervise(&a),
        "selftest-determinism" => sup::cmd_determinism(&a),
        _ => {
            eprintln!("usage: milasim supervise|worker|replay ...");
            2
        }
    };
    std::process::exit(code);
}
